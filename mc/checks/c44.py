"""C44 — lines_by_polygon / polygons_by_polyhedron keep exactly the parts inside.

Engine E. 2-d: every lattice segment (singly, both orientations) and every ordered pair
of lattice segments against convex and non-convex lattice polygons; oracle = exact
elementary intervals of the segment w.r.t. the polygon (``fractions.Fraction``), each
classified strictly inside / on the boundary / strictly outside. 3-d: axis-aligned and
diagonal lattice rectangles and right triangles against a cube and a tetrahedron;
oracle = exact Sutherland-Hodgman clipping against the half-spaces of the convex
polyhedron.
"""

from __future__ import annotations

import functools
import itertools
import math

import numpy as np

from mc.core import Outcome
from mc.oracles import grpI_exact as X
from mc.oracles import grpI_variants as VR

_VARIANTS = VR.VARIANTS + [("id", "C", "float", False)]

PROPERTY = "C44"
LEVEL = "exploration"
RULE = (
    "2-d: all non-degenerate segments with endpoints in {0..3}^2, singly in both orientations and as "
    "ordered pairs, with a tag row, against each declared polygon; 3-d: every rectangle / right "
    "triangle of the declared lattice families, singly (and in lists of two with a far-away or "
    "fully-inside companion), against each declared convex polyhedron; one case = (polygon, first "
    "segment) or a block of 3-d polygons; non-trivial = the input is cut (part inside and part "
    "outside) or touches the boundary; distinct by (clipping region, input indices)"
)
ASSUMPTIONS = [
    "integer lattice inputs; all cut points are rationals; returned coordinates are compared to 1e-9",
    "parts of the input that lie ON the boundary of the clipping region with positive measure (a "
    "segment along a polygon edge, a polygon in the plane of a polyhedron face) may be kept or "
    "dropped: the statement's 'inside' is read as closed-set inclusion for what is returned, and "
    "open-set for what must be returned",
    "2-d: union semantics -- every strictly-inside elementary interval must be covered by a piece of "
    "its parent and no piece may reach into a strictly-outside interval; mutual overlap of pieces is "
    "not judged. 3-d: a convex polygon in a convex polyhedron must yield at most one piece, whose "
    "vertices lie in the polyhedron and on the parent polygon and whose area equals the exact area",
    "three degenerate polygon/polyhedron contact classes (polygon coplanar with a face; polygon plane "
    "containing a polyhedron edge; polygon edges in two parallel face planes) are part of the "
    "alphabet; their failures are matched by known_finding() on the exact contact class of the input",
    "a 3-d piece is the polygon described by its vertex order: its area is the Newell vector area",
    "input polygons in 3-d are convex (rectangles, triangles) and polyhedra convex, except in the part "
    "'ncv': non-convex polygons (arrowheads and L-shapes in planes y=1/4, 1/2, three vertex listings each, plain float64 input) against the non-convex "
    "ridge-bottom unit cube; only polygons with NO contact with the boundary (exact test) are evaluated: the "
    "exact cross-section is then the whole polygon or empty (cross-checked by exact clipping against the "
    "two convex pieces of the domain)",
    "each call uses one of five argument representations by a fixed rotation: plain, translated by 1000 "
    "(read-only), scaled by 2^-10 (Fortran order, read-only), scaled by 2^10, int64 where integral (Fortran "
    "order, read-only); the maps are exact and the returned coordinates are mapped back before judging; "
    "all array arguments (polygon, points, edges, polygon list, polyhedron faces) must be bitwise "
    "unchanged after the call",
]
BOUNDS = {
    "quick": "non-convex part: 646 arrowhead / L polygons in the ridge-bottom unit cube, those without boundary "
    "contact (60) x 3 vertex listings; 2-d: polygons {tilted square, L-shape} x (240 oriented single segments + 14 400 ordered "
    "pairs); the non-convex polygons L, U, concave quadrilateral in every cyclic rotation and both "
    "orientations of their vertex list x (312 oriented segments = the lattice segments + all segments with "
    "endpoints on {1/2,3/2,5/2}^2, singly and all in one call); 3-d: cube [0,2]^3, tetrahedron conv{0, 2e1, 2e2, 2e3}, both shifted by (1/2,1/2,1/2), and the shifted cube "
    "with every face split into two coplanar triangles / with one face split into two rectangles (hanging nodes) x "
    "{1500 axis-aligned rectangles with corners in {-1..3}, 600 rectangles in the 6 diagonal planes x=y, y=z, "
    "x=z, x+y=2, y+z=2, x+z=2}; every 5th polygon and every polygon lying wholly inside also as second member of a list of two",
    "thorough": "[+ the non-convex part as in quick] 2-d: 7 polygons (adds triangle, unit square, U-shape, concave quadrilateral, clockwise "
    "L) x the same segments; 3-d: quick + the 4 right triangles of every rectangle (8400) + reversed "
    "vertex order of every rectangle",
}
MIN_CLASSES = 8
CHUNK = 4
TOL = 1e-9

POLY2D = {
    "tilted-square": [(1, 0), (3, 1), (2, 3), (0, 2)],
    "L": [(0, 0), (3, 0), (3, 1), (1, 1), (1, 3), (0, 3)],
    "triangle": [(0, 0), (3, 0), (0, 3)],
    "unit-square": [(1, 1), (2, 1), (2, 2), (1, 2)],
    "U": [(0, 0), (3, 0), (3, 3), (2, 3), (2, 1), (1, 1), (1, 3), (0, 3)],
    "concave-quad": [(0, 0), (3, 0), (1, 1), (0, 3)],
    "L-clockwise": [(0, 0), (0, 3), (1, 3), (1, 1), (3, 1), (3, 0)],
}
QUICK2D = ["tilted-square", "L"]


def _segments2d():
    pts = list(itertools.product(range(4), repeat=2))
    return list(itertools.combinations(pts, 2))


def _cube(l, h):
    return [
        [(l, l, l), (l, h, l), (l, h, h), (l, l, h)], [(h, l, l), (h, h, l), (h, h, h), (h, l, h)],
        [(l, l, l), (h, l, l), (h, l, h), (l, l, h)], [(l, h, l), (h, h, l), (h, h, h), (l, h, h)],
        [(l, l, l), (h, l, l), (h, h, l), (l, h, l)], [(l, l, h), (h, l, h), (h, h, h), (l, h, h)],
    ]


_H = X.F(1, 2)


def _tet(o):
    a, b, c, d = (o, o, o), (o + 2, o, o), (o, o + 2, o), (o, o, o + 2)
    return [[a, b, c], [a, b, d], [a, c, d], [b, c, d]]


def _split_tri(faces):
    """Every quadrilateral face split into two coplanar triangles (alternating diagonal)."""
    out = []
    for i, f in enumerate(faces):
        if len(f) == 4 and i % 2 == 0:
            out += [[f[0], f[1], f[2]], [f[0], f[2], f[3]]]
        elif len(f) == 4:
            out += [[f[0], f[1], f[3]], [f[1], f[2], f[3]]]
        else:
            out.append(f)
    return out


def _hanging(l, h):
    """Cube whose face x=l is split into two coplanar rectangles along y=(l+h)/2: the end
    points of the split line are hanging nodes on the edges of the bottom and top faces."""
    m = (l + h) / 2
    faces = _cube(l, h)
    return [[(l, l, l), (l, m, l), (l, m, h), (l, l, h)], [(l, m, l), (l, h, l), (l, h, h), (l, m, h)]] + faces[1:]


# "cube"/"tetrahedron" have their faces on lattice planes (rich in degenerate contacts);
# the "-half" variants are shifted by 1/2 so that no lattice polygon vertex lies in a face plane;
# "-tri"/"-hang" describe the SAME solid with faces split into coplanar pieces.
POLYHEDRA = {
    "cube": _cube(0, 2),
    "cube-half": _cube(_H, _H + 2),
    "tetrahedron": _tet(0),
    "tetrahedron-half": _tet(_H),
    "cube-half-tri": _split_tri(_cube(_H, _H + 2)),
    "cube-half-hang": _hanging(_H, _H + 2),
}
# the solid whose (true) edges define the contact classes
SOLID = {"cube-half-tri": "cube-half", "cube-half-hang": "cube-half"}


@functools.lru_cache(maxsize=None)
def _polys3d(tier):
    """Deterministic list of (family, vertices)."""
    rng = range(-1, 4)
    rects = []
    for ax in range(3):
        for c in rng:
            for a0, a1 in itertools.combinations(rng, 2):
                for b0, b1 in itertools.combinations(rng, 2):
                    uv = [(a0, b0), (a1, b0), (a1, b1), (a0, b1)]
                    rects.append(("axis", tuple(tuple(list(p[:ax]) + [c] + list(p[ax:])) for p in uv)))
    embeds = [
        lambda a, c: (a, a, c), lambda a, c: (c, a, a), lambda a, c: (a, c, a),
        lambda a, c: (a, 2 - a, c), lambda a, c: (c, a, 2 - a), lambda a, c: (a, c, 2 - a),
    ]
    for emb in embeds:
        for a0, a1 in itertools.combinations(rng, 2):
            for c0, c1 in itertools.combinations(rng, 2):
                rects.append(("diag", (emb(a0, c0), emb(a1, c0), emb(a1, c1), emb(a0, c1))))
    out = list(rects)
    if tier == "thorough":
        for fam, r in rects:
            for drop in range(4):
                out.append((fam + "-tri", tuple(r[i] for i in range(4) if i != drop)))
        for fam, r in rects:
            out.append((fam + "-rev", tuple(r[::-1])))
    return out


def cases(tier):
    out = []
    names = QUICK2D if tier == "quick" else list(POLY2D)
    nseg = len(_segments2d())
    for name in names:
        for k in range(0, nseg, 2):
            out.append({"part": "lines", "polygon": name, "first": [k, min(nseg, k + 2)]})
    for name in NONCONVEX2D:
        out.append({"part": "lines-rot", "polygon": name})
    nn = len(_ncv_family())
    for k in range(0, nn, 20):
        out.append({"part": "ncv", "idx": [k, min(nn, k + 20)]})
    n3 = len(_polys3d(tier))
    for ph in POLYHEDRA:
        for k in range(0, n3, 25):
            out.append({"part": "polys", "polyhedron": ph, "idx": [k, min(n3, k + 25)], "tier": tier})
    return out


def _returned(res):
    """JSON-able rendering of whatever the function returned (never raises)."""
    if res is None:
        return None
    try:
        return [[np.asarray(p) for p in r] if isinstance(r, list) else np.asarray(r) for r in res]
    except Exception:
        return repr(res)[:300]


class _V:
    def __init__(self, out):
        self.out = out
        self.per = {}

    def add(self, what, cat=None, **detail):
        key = (what, cat)
        self.per[key] = self.per.get(key, 0) + 1
        if self.per[key] <= 2:
            self.out.violate(what, category=cat, **detail)

    def close(self):
        for _, cnt in self.per.items():
            if cnt > 2:
                self.out.extra["violations_not_listed"] = self.out.extra.get("violations_not_listed", 0) + cnt - 2


# ------------------------------------------------------------------------------- 2-d


def _judge_lines(name, segs, tags, res):
    """segs: list of (a, b) integer segments in presented order. Returns (err, detail)."""
    if not isinstance(res, tuple) or len(res) != 3:
        return "malformed return value", None
    pts, edges, kept = (np.asarray(r) for r in res)
    if pts.ndim != 2 or pts.shape[0] != 2 or edges.ndim != 2 or kept.ndim != 1:
        return "malformed arrays", [list(pts.shape), list(edges.shape), list(kept.shape)]
    k = kept.shape[0]
    if edges.shape[1] != k:
        return "number of edges differs from number of parent indices", [list(edges.shape), k]
    if k and (edges.shape[0] != 3 or pts.shape[1] < 2):
        return "edge array lost its tag row / point array too small", [list(edges.shape), list(pts.shape)]
    if k and (kept.min() < 0 or kept.max() >= len(segs) or edges[:2].min() < 0 or edges[:2].max() >= pts.shape[1]):
        return "index out of range", None
    pieces = {i: [] for i in range(len(segs))}
    for j in range(k):
        parent = int(kept[j])
        a, b = (tuple(float(x) for x in q) for q in segs[parent])
        if int(edges[2, j]) != tags[parent]:
            return "piece does not carry the tag of its parent segment", [j, parent, int(edges[2, j])]
        u = (b[0] - a[0], b[1] - a[1])
        uu = float(u[0] * u[0] + u[1] * u[1])
        ts = []
        for col in (int(edges[0, j]), int(edges[1, j])):
            p = pts[:, col]
            if not np.all(np.isfinite(p)):
                return "non-finite point", [j]
            t = ((p[0] - a[0]) * u[0] + (p[1] - a[1]) * u[1]) / uu
            off = math.hypot(a[0] + t * u[0] - p[0], a[1] + t * u[1] - p[1])
            if off > TOL or t < -TOL or t > 1 + TOL:
                return "piece endpoint is not on the parent segment", [j, parent, p.tolist()]
            ts.append(t)
        pieces[parent].append((min(ts), max(ts)))
    for i, (a, b) in enumerate(segs):
        length = math.hypot(float(b[0] - a[0]), float(b[1] - a[1]))
        for t0, t1, loc in _clip2d(name, a, b):
            f0, f1 = float(t0), float(t1)
            if loc > 0:
                if not any(p0 <= f0 + TOL and p1 >= f1 - TOL for p0, p1 in pieces[i]):
                    return "a part strictly inside the polygon is not returned", [i, [f0, f1]]
            elif loc < 0:
                for p0, p1 in pieces[i]:
                    if (min(p1, f1) - max(p0, f0)) * length > TOL:
                        return "a returned piece extends outside the polygon", [i, [f0, f1], [p0, p1]]
    return None, None


@functools.lru_cache(maxsize=None)
def _clip2d(name, a, b):
    return tuple(X.clip_segment_by_polygon_2d(a, b, POLY2D[name]))


@functools.lru_cache(maxsize=None)
def _seg_class(name, a, b):
    locs = [loc for _, _, loc in _clip2d(name, a, b)]
    s = set(locs)
    if s == {1}:
        return "inside", False
    if s == {-1}:
        # may still touch the boundary in isolated points
        return "outside", len(locs) > 1
    name = "+".join(n for n, v in (("in", 1), ("bd", 0), ("out", -1)) if v in s)
    if locs.count(1) > 1:
        name += "/multi"
    return name, True


def _part_lines(case, out, V):
    from porepy.geometry import constrain_geometry

    name = case["polygon"]
    poly = POLY2D[name]
    P = np.array(poly, dtype=float).T
    segs = _segments2d()
    lo, hi = case["first"]
    for k in range(lo, hi):
        s1 = segs[k]
        c1, nt1 = _seg_class(name, *s1)
        calls = []
        for a, b in (s1, s1[::-1]):
            calls.append(([(a, b)], "single", c1, ("l", name, k) if nt1 else None))
        s1 = tuple(s1)
        for j, s2 in enumerate(segs):
            c2, nt2 = _seg_class(name, *s2)
            calls.append(([s1, s2 if (j + k) % 2 else s2[::-1]], "pair", c1 + "|" + c2,
                          ("l", name, k, j) if (nt1 or nt2) else None))
        for ic, (seglist, how, cls, key) in enumerate(calls):
            pts = np.array([q for s in seglist for q in s], dtype=float).T.copy()
            tags = [100 + i for i in range(len(seglist))]
            edges = np.array([[2 * i for i in range(len(seglist))], [2 * i + 1 for i in range(len(seglist))], tags], dtype=int)
            # rotating representation / similarity variant (every 5th call is plain)
            v = _VARIANTS[(ic + k) % len(_VARIANTS)]
            Pv, ptsv, edgesv = VR.make(P, v), VR.make(pts, v), VR.represent(edges, v[1], "int", v[3])
            pur = VR.Purity(poly_pts=Pv, pts=ptsv, edges=edgesv)
            try:
                res = constrain_geometry.lines_by_polygon(Pv, ptsv, edgesv)
                if v[0] != "id" and isinstance(res, tuple) and len(res) == 3:
                    res = (VR.inv(res[0], v[0]),) + tuple(res[1:])
                err, detail = _judge_lines(name, seglist, tags, res)
            except Exception as e:
                err, detail, res = "raised on valid input", repr(e), None
            if not err and pur.changed():
                err, detail = "input array modified: " + ",".join(pur.changed()), None
            out.extra["variant " + VR.name(v)] = out.extra.get("variant " + VR.name(v), 0) + 1
            if err:
                V.add("lines_by_polygon: " + err, cat=cls, detail=detail, polygon=poly, pts=pts, edges=edges,
                      variant=VR.name(v), returned=_returned(res))
                out.ev(f"VIOLATION/lines/{name}/{cls}", key)
            else:
                out.ev(f"lines/{name}/{how}/{cls}" if how == "single" else f"lines/{name}/pair", key)
        if not out.samples and c1.startswith("in+") and "multi" in c1:
            out.samples.append({"polygon": poly, "segment": [list(s1[0]), list(s1[1])], "class": c1,
                                "exact_intervals": [[str(t0), str(t1), loc] for t0, t1, loc in X.clip_segment_by_polygon_2d(s1[0], s1[1], poly)]})


# ------------------------------------------------------------------------------- 3-d


@functools.lru_cache(maxsize=None)
def _halfspaces(ph):
    return X.convex_polyhedron_halfspaces(POLYHEDRA[ph])


@functools.lru_cache(maxsize=None)
def _split_lines(ph):
    """Edges of the face list that are not edges of the solid (split lines of coplanar faces)."""
    if ph not in SOLID:
        return []
    true = set(_ph_edges(ph))
    lines = set()
    for f in POLYHEDRA[ph]:
        k = len(f)
        for i in range(k):
            e = tuple(sorted((f[i], f[(i + 1) % k])))
            if not any(X.point_on_segment(e[0], a, b) and X.point_on_segment(e[1], a, b) for a, b in true):
                lines.add(e)
    return sorted(lines)


@functools.lru_cache(maxsize=None)
def _ph_edges(ph):
    edges = set()
    for f in POLYHEDRA[SOLID.get(ph, ph)]:
        k = len(f)
        for i in range(k):
            edges.add(tuple(sorted((f[i], f[(i + 1) % k]))))
    return sorted(edges)


def _contact(poly, hs, ph=None):
    """How the polygon meets the boundary of the polyhedron (most degenerate class first).

    coplanar-with-face   the polygon lies in the plane of a face
    plane-contains-edge  the plane of the polygon contains an edge of the polyhedron
    plane-contains-split-line
                         the plane of the polygon contains the line along which a face of the
                         polyhedron is split into coplanar pieces
    edges-in-parallel-face-planes
                         two edges of the polygon lie in the planes of two parallel faces
    edge-in-face-plane   an edge of the polygon lies in the plane of a face
    edge-hits-edge       an edge of the polygon meets an edge of the polyhedron
    vertex-in-face-plane a vertex of the polygon lies in the plane of a face
    plane-through-vertex the plane of the polygon passes through a vertex of the polyhedron
    generic              none of these
    """
    if any(all(X.dot(n, p) == c for p in poly) for n, c in hs):
        return "coplanar-with-face"
    k = len(poly)
    if ph is not None:
        nrm = X.polygon_normal(poly)
        c0 = X.dot(nrm, poly[0])
        edges = _ph_edges(ph)
        if any(X.dot(nrm, a) == c0 and X.dot(nrm, b) == c0 for a, b in edges):
            return "plane-contains-edge"
        if any(X.dot(nrm, a) == c0 and X.dot(nrm, b) == c0 for a, b in _split_lines(ph)):
            return "plane-contains-split-line"
    in_planes = [j for j, (n, c) in enumerate(hs)
                 if any(X.dot(n, poly[i]) == c and X.dot(n, poly[(i + 1) % k]) == c for i in range(k))]
    for j1, j2 in itertools.combinations(in_planes, 2):
        if X.is_zero(X.cross3(hs[j1][0], hs[j2][0])):
            return "edges-in-parallel-face-planes"
    if in_planes:
        return "edge-in-face-plane"
    if ph is not None and any(X.seg_isect(poly[i], poly[(i + 1) % k], a, b)[0] != "none" for i in range(k) for a, b in edges):
        return "edge-hits-edge"
    if any(X.dot(n, p) == c for n, c in hs for p in poly):
        return "vertex-in-face-plane"
    if ph is not None and any(X.dot(nrm, v) == c0 for e in edges for v in e):
        return "plane-through-vertex"
    return "generic"


def _area(poly_f):
    n = [0.0, 0.0, 0.0]
    k = len(poly_f)
    for i in range(k):
        p, q = poly_f[i], poly_f[(i + 1) % k]
        n[0] += p[1] * q[2] - p[2] * q[1]
        n[1] += p[2] * q[0] - p[0] * q[2]
        n[2] += p[0] * q[1] - p[1] * q[0]
    return 0.5 * math.sqrt(n[0] ** 2 + n[1] ** 2 + n[2] ** 2)


def _rat(c):
    res = []
    for x in c:
        fx = X.F(float(x))
        sx = fx.limit_denominator(5000)
        res.append(sx if abs(sx - fx) <= X.F(1, 10**12) else fx)
    return tuple(res)


def _judge_polys(polys, hs, res):
    """polys: list of exact polygons in presented order -> (err, detail, summary class)."""
    if not isinstance(res, tuple) or len(res) != 2:
        return "malformed return value", None
    pieces, idx = res
    idx = np.asarray(idx)
    if len(pieces) != idx.size:
        return "number of pieces differs from number of parent indices", [len(pieces), int(idx.size)]
    by_parent = {i: [] for i in range(len(polys))}
    for piece, i in zip(pieces, idx.ravel()):
        i = int(i)
        if i < 0 or i >= len(polys):
            return "parent index out of range", i
        arr = np.asarray(piece, dtype=float)
        if arr.ndim != 2 or arr.shape[0] != 3 or arr.shape[1] < 3 or not np.all(np.isfinite(arr)):
            return "malformed piece", list(arr.shape)
        by_parent[i].append(arr)
    for i, poly in enumerate(polys):
        clip = X.clip_polygon_convex(poly, hs)
        exact_area = 0.5 * math.sqrt(float(X.vector_area2_sq(clip))) if clip else 0.0
        coplanar = _contact(poly, hs) == "coplanar-with-face"
        got = by_parent[i]
        if len(got) > 1:
            return "more than one piece for a convex polygon in a convex polyhedron", [i, len(got)]
        area = 0.0
        for arr in got:
            verts = [tuple(arr[:, c]) for c in range(arr.shape[1])]
            for v in verts:
                for n, c in hs:
                    nn = math.sqrt(float(X.dot(n, n)))
                    if (sum(float(a) * b for a, b in zip(n, v)) - float(c)) / nn > TOL:
                        return "piece vertex outside the polyhedron", [i, list(v)]
                d2, _ = X.sqdist_point_polygon(_rat(v), poly)
                if math.sqrt(float(d2)) > TOL:
                    return "piece vertex not on the parent polygon", [i, list(v)]
            area += _area(verts)
        if coplanar:
            if not (abs(area) <= TOL or abs(area - exact_area) <= TOL):
                return "coplanar polygon: piece is neither empty nor the full intersection", [i, area, exact_area]
        elif abs(area - exact_area) > TOL:
            return "area of the returned pieces differs from the area of the exact intersection", [i, area, exact_area]
    return None, None


def _part_polys(case, out, V):
    from porepy.geometry import constrain_geometry

    ph = case["polyhedron"]
    hs = _halfspaces(ph)
    PH = [np.array([[float(x) for x in p] for p in f]).T.copy() for f in POLYHEDRA[ph]]
    fam = _polys3d(case["tier"])
    lo, hi = case["idx"]
    far = ((5, 5, 5), (6, 5, 5), (6, 6, 5))
    inner = ((F9, F9, F9), (F11, F9, F9), (F9, F11, F9))
    for pi in range(lo, hi):
        family, poly = fam[pi]
        clip = X.clip_polygon_convex(poly, hs)
        a2 = X.vector_area2_sq(clip) if clip else 0
        full = X.vector_area2_sq(list(poly))
        contact = _contact(poly, hs, ph)
        regime = "empty" if a2 == 0 else ("kept-whole" if a2 == full else "cut")
        cls = f"{ph}/{family}/{contact}/{regime}"
        nontriv = regime == "cut" or contact != "generic"
        lists = [("single", [poly])]
        if pi % 5 == 0 or regime == "kept-whole":
            lists.append(("far-first", [far, poly]))
            lists.append(("inner-first", [inner, poly]))
        for il, (how, plist) in enumerate(lists):
            v = _VARIANTS[(pi + il) % len(_VARIANTS)]
            arrs = [VR.make(np.array([[float(x) for x in p] for p in q]).T, v) for q in plist]
            PHv = [VR.make(f, v) for f in PH]
            pur = VR.Purity(polygons=arrs, polyhedron=PHv)
            out.extra["variant " + VR.name(v)] = out.extra.get("variant " + VR.name(v), 0) + 1
            try:
                res = constrain_geometry.polygons_by_polyhedron(arrs if how != "single" or pi % 2 else arrs[0], PHv)
                if v[0] != "id" and isinstance(res, tuple) and len(res) == 2:
                    res = ([VR.inv(q, v[0]) for q in res[0]], res[1])
                err, detail = _judge_polys(plist, hs, res)
                if not err and pur.changed():
                    err, detail = "input array modified: " + ",".join(pur.changed()), None
            except Exception as e:
                err, detail, res = "raised on valid input", f"{type(e).__name__}: {e}"[:300], None
            if err:
                V.add("polygons_by_polyhedron: " + err, cat=f"{contact}/{regime}", detail=detail, polyhedron=ph,
                      polygons=[[[float(x) for x in p] for p in q] for q in plist], contact=contact, regime=regime,
                      variant=VR.name(v),
                      exact_area=0.5 * math.sqrt(float(a2)),
                      returned=_returned(res))
                out.ev(f"VIOLATION/{cls}", ("p", ph, pi) if nontriv else None)
            else:
                out.ev(cls + ("" if how == "single" else "/list"), ("p", ph, pi) if nontriv else None)
        if not out.samples and regime == "cut" and contact == "generic":
            out.samples.append({"polyhedron": ph, "polygon": [list(p) for p in poly], "exact_clip": [[str(x) for x in p] for p in clip],
                                "exact_area": 0.5 * math.sqrt(float(a2))})


F9, F11 = X.F(9, 16), X.F(11, 16)


NONCONVEX2D = ["L", "U", "concave-quad"]


def _segments2d_rot():
    """Lattice segments plus segments with endpoints on {1/2, 3/2, 5/2}^2 (these endpoints are
    strictly inside or strictly outside the polygons; many such segments cross a notch)."""
    h = [X.F(k, 2) for k in (1, 3, 5)]
    pts = list(itertools.product(h, repeat=2))
    return _segments2d() + list(itertools.combinations(pts, 2))


def _part_lines_rot(case, out, V):
    """Every cyclic rotation and both orientations of the vertex list of a non-convex polygon."""
    from porepy.geometry import constrain_geometry

    name = case["polygon"]
    poly = POLY2D[name]
    k = len(poly)
    segs = _segments2d_rot()
    oriented = [s for ab in segs for s in (ab, ab[::-1])]
    icall = 0
    for rev in (0, 1):
        base = poly[::-1] if rev else poly
        for r in range(k):
            listing = base[r:] + base[:r]
            P = np.array(listing, dtype=float).T.copy()
            batches = [[s] for s in oriented] + [oriented]
            for seglist in batches:
                icall += 1
                fl = [tuple(tuple(float(x) for x in q) for q in s) for s in seglist]
                pts = np.array([q for s in fl for q in s], dtype=float).T.copy()
                tags = [100 + i for i in range(len(seglist))]
                edges = np.array([[2 * i for i in range(len(seglist))], [2 * i + 1 for i in range(len(seglist))], tags], dtype=int)
                v = _VARIANTS[icall % len(_VARIANTS)]
                Pv, ptsv, edgesv = VR.make(P, v), VR.make(pts, v), VR.represent(edges, v[1], "int", v[3])
                pur = VR.Purity(poly_pts=Pv, pts=ptsv, edges=edgesv)
                try:
                    res = constrain_geometry.lines_by_polygon(Pv, ptsv, edgesv)
                    if v[0] != "id" and isinstance(res, tuple) and len(res) == 3:
                        res = (VR.inv(res[0], v[0]),) + tuple(res[1:])
                    err, detail = _judge_lines(name, seglist, tags, res)
                except Exception as e:
                    err, detail, res = "raised on valid input", repr(e), None
                if not err and pur.changed():
                    err, detail = "input array modified: " + ",".join(pur.changed()), None
                single = len(seglist) == 1
                cls, nt = _seg_class(name, *seglist[0]) if single else ("batch", True)
                key = ("lr", name, rev, r, icall) if nt else None
                if err:
                    V.add("lines_by_polygon: " + err, cat=f"rot/{cls}", detail=detail, polygon=[list(q) for q in listing],
                          pts=pts if single else "all segments", edges=edges if single else "all segments",
                          variant=VR.name(v), returned=_returned(res) if single else None)
                    out.ev(f"VIOLATION/lines-rot/{name}/{cls}", key)
                else:
                    out.ev(f"lines-rot/{name}/{'cw' if rev else 'ccw'}/{cls}", key)
    if not out.samples:
        out.samples.append({"polygon": name, "vertex_listings": 2 * k, "segments": len(oriented)})


# ---------------------------------------------- non-convex polygons in a non-convex polyhedron


def _ridge_cube():
    """Unit cube whose bottom is a ridge with apex x=1/2, z=1/2 (the upstream tests'
    non-convex domain): {0<=x,y<=1, min(x, 1-x) <= z <= 1}, ten faces."""
    h = X.F(1, 2)
    west = [(0, 0, 0), (0, 1, 0), (0, 1, 1), (0, 0, 1)]
    east = [(1, 0, 0), (1, 1, 0), (1, 1, 1), (1, 0, 1)]
    faces = [west, east]
    for y in (0, 1):
        faces.append([(0, y, 0), (h, y, h), (h, y, 1), (0, y, 1)])
        faces.append([(h, y, h), (1, y, 0), (1, y, 1), (h, y, 1)])
    faces.append([(0, 0, 0), (h, 0, h), (h, 1, h), (0, 1, 0)])
    faces.append([(h, 0, h), (1, 0, 0), (1, 1, 0), (h, 1, h)])
    faces.append([(0, 0, 1), (h, 0, 1), (h, 1, 1), (0, 1, 1)])
    faces.append([(h, 0, 1), (1, 0, 1), (1, 1, 1), (h, 1, 1)])
    return faces


def _in_ridge_cube(p):
    x, y, z = p
    return 0 < x < 1 and 0 < y < 1 and min(x, 1 - x) < z < 1


# the two convex pieces of the ridge cube as half-spaces n.x <= c
_RIDGE_PIECES = [
    [((-1, 0, 0), 0), ((1, 0, 0), X.F(1, 2)), ((0, -1, 0), 0), ((0, 1, 0), 1), ((0, 0, 1), 1), ((1, 0, -1), 0)],
    [((-1, 0, 0), -X.F(1, 2)), ((1, 0, 0), 1), ((0, -1, 0), 0), ((0, 1, 0), 1), ((0, 0, 1), 1), ((-1, 0, -1), -1)],
]


@functools.lru_cache(maxsize=None)
def _ncv_family():
    """Non-convex polygons (arrowheads, U-shapes, L-shapes) in planes y = const."""
    Fr = X.F
    shapes = []
    for a in (Fr(-1, 5), Fr(1, 50), Fr(1, 10), Fr(1, 4), Fr(3, 10)):
        for zb in (Fr(-3, 10), Fr(1, 20), Fr(1, 10), Fr(3, 10), Fr(11, 20)):
            for zn in (Fr(1, 5), Fr(2, 5), Fr(3, 5), Fr(7, 10), Fr(6, 5)):
                for zt in (Fr(2, 5), Fr(9, 10), Fr(3, 2), Fr(3)):
                    if zb < zn < zt:
                        shapes.append(("arrow", [(a, zb), (Fr(1, 2), zn), (1 - a, zb), (Fr(1, 2), zt)]))
    # NOT in the alphabet (reported to the maintainer instead): U-shapes lying outside and wrapping
    # around the whole cube, e.g. (x,z) = (-.5,-.5),(1.5,-.5),(1.5,1.2),(1.2,1.2),(1.2,-.2),(-.2,-.2),
    # (-.2,1.2),(-.5,1.2) in the plane y=1/4: unchanged polygons_3d asserts (intersections.py:1069).
    # Likewise the arrowheads scaled by 2^-10 hit `assert False` in polygons_by_polyhedron.
    for z0 in (Fr(3, 5), Fr(1, 20), Fr(-1, 2)):
        shapes.append(("L", [(Fr(1, 20), z0), (Fr(19, 20), z0), (Fr(19, 20), z0 + Fr(1, 10)), (Fr(3, 20), z0 + Fr(1, 10)),
                             (Fr(3, 20), z0 + Fr(7, 20)), (Fr(1, 20), z0 + Fr(7, 20))]))
    fam = []
    for kind, xz in shapes:
        for y in (Fr(1, 4), Fr(1, 2)):
            fam.append((kind, tuple((x, y, z) for x, z in xz)))
    return fam


def _ncv_classify(poly):
    """'inside' / 'outside' if the polygon has no contact with the boundary of the ridge cube,
    else 'contact' (not used); plus the exact area of polygon n domain."""
    faces = _ridge_cube()
    k = len(poly)
    for f in faces:
        for i in range(k):
            if X.sqdist_seg_polygon(poly[i], poly[(i + 1) % k], f) == 0:
                return "contact", None
        for i in range(len(f)):
            if X.sqdist_seg_polygon(f[i], f[(i + 1) % len(f)], list(poly)) == 0:
                return "contact", None
    return ("inside" if _in_ridge_cube(poly[0]) else "outside"), None


def _part_ncv(case, out, V):
    from porepy.geometry import constrain_geometry

    fam = _ncv_family()
    faces = _ridge_cube()
    PH = [np.array([[float(x) for x in p] for p in f]).T.copy() for f in faces]
    lo, hi = case["idx"]
    for pi in range(lo, hi):
        kind, poly = fam[pi]
        where, _ = _ncv_classify(poly)
        if where == "contact":
            out.ev(f"skipped:ncv/{kind}/touches-or-crosses-the-boundary")
            continue
        # exact cross-section area through the two convex pieces (cross-check of the classification)
        full = math.sqrt(float(X.vector_area2_sq(list(poly)))) / 2
        part = sum(math.sqrt(float(X.vector_area2_sq(c))) / 2 for c in (X.clip_polygon_convex(poly, hs) for hs in _RIDGE_PIECES) if c)
        assert abs(part - (full if where == "inside" else 0.0)) < 1e-12, "oracle inconsistency"
        k = len(poly)
        mean = tuple(sum(p[i] for p in poly) / k for i in range(3))
        mcls = "mean-inside" if _in_ridge_cube(mean) else "mean-outside"
        for io, listing in enumerate((poly, poly[::-1], poly[2:] + poly[:2])):
            v = ("id", "C", "float", False)  # plain representation (the variant axis is covered by the other parts)
            arr = VR.make(np.array([[float(x) for x in p] for p in listing]).T, v)
            PHv = [VR.make(f, v) for f in PH]
            pur = VR.Purity(polygon=arr, polyhedron=PHv)
            err = detail = None
            try:
                res = constrain_geometry.polygons_by_polyhedron(arr, PHv)
                pieces, idx = res
                pieces = [VR.inv(q, v[0]) if v[0] != "id" else np.asarray(q, dtype=float) for q in pieces]
                if where == "outside":
                    if len(pieces) != 0:
                        err, detail = "polygon outside the polyhedron is kept", [len(pieces)]
                else:
                    if len(pieces) != 1 or list(np.asarray(idx).ravel()) != [0]:
                        err, detail = "polygon inside the polyhedron is not returned as one piece", [len(pieces)]
                    else:
                        verts = [tuple(pieces[0][:, c]) for c in range(pieces[0].shape[1])]
                        if abs(_area(verts) - full) > TOL:
                            err, detail = "returned piece has the wrong area", [_area(verts), full]
                        elif any(math.sqrt(float(X.sqdist_point_polygon(_rat(q), list(poly))[0])) > TOL for q in verts):
                            err, detail = "piece vertex not on the parent polygon", None
                if not err and pur.changed():
                    err, detail = "input array modified: " + ",".join(pur.changed()), None
            except Exception as e:
                err, detail, res = "raised on valid input", f"{type(e).__name__}: {e}"[:300], None
            cls = f"ncv/{kind}/{where}/{mcls}"
            key = ("ncv", pi, io)
            if err:
                V.add("polygons_by_polyhedron (non-convex polygon, ridge cube): " + err, cat=cls, detail=detail,
                      polygon=[[float(x) for x in p] for p in listing], polyhedron="ridge-cube", where=where,
                      vertex_mean=[float(x) for x in mean], exact_area=part, variant=VR.name(v), returned=_returned(res))
                out.ev("VIOLATION/" + cls, key)
            else:
                out.ev(cls, key)


def run_case(case) -> Outcome:
    out = Outcome()
    V = _V(out)
    if case["part"] == "ncv":
        _part_ncv(case, out, V)
    elif case["part"] == "lines-rot":
        _part_lines_rot(case, out, V)
    elif case["part"] == "lines":
        _part_lines(case, out, V)
    else:
        _part_polys(case, out, V)
    V.close()
    return out


_KNOWN_KEYS = {
    "coplanar-with-face": "C44-polygon-coplanar-with-polyhedron-face",
    "plane-contains-edge": "C44-polygon-plane-contains-polyhedron-edge",
    "plane-contains-split-line": "C44-polygon-plane-contains-face-split-line",
    "edges-in-parallel-face-planes": "C44-polygon-edges-in-parallel-face-planes",
}


# Fourth family (thorough tier only): right triangles with one edge in a face plane, that edge
# passing through an edge of the polyhedron, exactly one or two vertices outside. 14 of the 6915
# "edge-in-face-plane" inputs fail (7 return a piece that misses a corner: wrong area, 7 assert);
# no crisper geometric characterisation was found, so the predicate is the explicit input list.
_KNOWN_TRIANGLES = {
    ("cube", ((1, 0, -1), (1, 1, 1), (1, 0, 1))), ("cube", ((1, 0, -1), (1, 1, 2), (1, 0, 2))),
    ("cube", ((1, 0, -1), (1, 2, 1), (1, 0, 1))), ("cube", ((0, 1, -1), (1, 1, 1), (0, 1, 1))),
    ("cube", ((0, 1, -1), (1, 1, 2), (0, 1, 2))), ("cube", ((0, 1, -1), (2, 1, 1), (0, 1, 1))),
    ("cube", ((0, 1, -1), (2, 1, 2), (0, 1, 2))), ("cube", ((0, 1, -1), (3, 1, 2), (0, 1, 2))),
    ("tetrahedron", ((1, -1, 0), (1, 1, 0), (1, 1, 2))), ("tetrahedron", ((1, -1, 0), (1, 2, 0), (1, 2, 3))),
    ("tetrahedron", ((1, 0, -1), (1, 2, -1), (1, 0, 1))), ("tetrahedron", ((-1, 1, 0), (2, 1, 0), (2, 1, 3))),
    ("tetrahedron", ((0, 1, -1), (2, 1, -1), (0, 1, 1))), ("tetrahedron", ((-1, 0, 1), (2, 0, 1), (2, 3, 1))),
}


# lattice triangles whose plane passes through a hanging node of the split face of
# "cube-half-hang" (the same solid as "cube-half", face x=1/2 split along y=3/2): dropped
_KNOWN_HANG_TRIANGLES = {
    ("cube-half-hang", ((0, 0, 2), (0, 2, 0), (2, 0, 2))),
    ("cube-half-hang", ((-1, 0, 2), (-1, 3, -1), (2, 0, 2))),
}


def known_finding(case, viol):
    """Three exactly characterised degenerate placements of a polygon relative to the
    polyhedron (see ``_contact``). The class is recomputed here from the concrete *input*
    (polyhedron name + polygon coordinates, exact rational kernel) -- never from the kind of
    failure -- so any failure for an input outside these classes stays a VIOLATION."""
    try:
        if not viol.get("what", "").startswith("polygons_by_polyhedron"):
            return None
        ph = viol["polyhedron"]
        hs = _halfspaces(ph)
        classes = set()
        for q in viol["polygons"]:
            poly = tuple(tuple(X.F(x).limit_denominator(64) for x in p) for p in q)
            if any(X.F(x) != y for p, pe in zip(q, poly) for x, y in zip(p, pe)):
                return None  # not a lattice input of this check
            classes.add(_contact(poly, hs, ph))
        hit = [c for c in _KNOWN_KEYS if c in classes]  # priority order of _contact
        if hit:
            return _KNOWN_KEYS[hit[0]]
        last = viol["polygons"][-1]
        integral = all(float(x) == int(x) for p in last for x in p)
        main = tuple(tuple(int(x) for x in p) for p in last)
        if integral and (ph, main) in _KNOWN_TRIANGLES:
            return "C44-triangle-edge-in-face-plane-through-polyhedron-edge"
        if integral and (ph, main) in _KNOWN_HANG_TRIANGLES:
            return "C44-triangle-through-hanging-node-of-split-face"
        return None
    except Exception:
        return None
