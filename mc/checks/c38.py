"""C38 — exported states are restored exactly on import.

Engine E. An md-grid is built from letters, cell data whose value encodes (entity rank,
cell index, time step) are written for several time steps with the real ``Exporter``,
then a second, independently built md-grid of the same geometry is filled through
``import_state_from_vtu`` / ``import_from_pvd`` (plain and md-grid pvd) and compared cell
by cell with what was written at the most recent time-step index.

Alphabets:
  * every sequence of <= 3 two-dimensional subdomains over {Q quads, T triangles, P polygon
    grid (triangle, pentagon, 2 quads), M triangle|quad|triangle}, so that cell types interleave
    across and inside grids; likewise 3-d over {H hexahedra, E tetrahedra, Y polyhedra};
  * fractured md-grids with interfaces (Cartesian 2-d / 3-d, crossing fractures with a 0-d
    grid, gmsh simplices, a fractured grid plus an unconnected triangle grid);
  * sets of time-step labels, including labels with different numbers of digits;
  * the model mixin (``DataSavingMixin.write_pvd_and_vtu`` / ``load_data_from_pvd``) with a
    real ``TimeManager`` for several (final time, dt): time, dt and data after the restart.

Oracle: the arrays that were written and the clock that wrote them.
"""

from __future__ import annotations

import itertools
from pathlib import Path

import numpy as np

from mc.core import Outcome, jsonable
from mc.oracles import grpL_exp as G

PROPERTY = "C38"
LEVEL = "exploration"
RULE = (
    "one case = one md-grid (sequence of subdomain letters, or a fractured md-grid) x {binary, ascii}, or "
    "one set of time-step labels, or one (final time, dt) of the model mixin; inside it every import "
    "route (vtu files, pvd, md-grid pvd; keys given or taken from the md-grid). Non-trivial = at least "
    "two different cell types among the cells of one dimension, or interfaces present, or more than "
    "one time step; distinct by (case, import route)"
)
ASSUMPTIONS = [
    "binary vtu: exact equality; ascii vtu: relative 1e-10 (meshio prints ascii with finite precision)",
    "vector cell data are written as flat arrays (3 components per cell, cell-wise contiguous) and compared "
    "with the flat array that is restored",
    "the md-grid used for the import is built by the same deterministic builder as the exported one",
    "time: after DataSavingMixin.load_data_from_pvd the time manager must hold the last written time and dt (exactly) "
    "and the exporter's counter the last index; clocks whose times the pvd format '%f' cannot tell apart are skipped; "
    "with write_pvd(times=) the most recent state is the one attached to the largest time",
    "time information: (time, dt) restored by load_time_information + set_time_and_dt_from_exported_steps(k) equal the "
    "written pair exactly for every index k and -1, for constant and adaptive clocks, whatever dt_min_max the writing "
    "and the restoring TimeManager have; written dt values are assigned or produced by compute_time_step",
    "purity: arrays handed to write_vtu / write_pvd are unchanged; importing twice gives the same state; an older "
    "state imported before is replaced completely",
]
BOUNDS = {
    "quick": "2-d: all 84 letter sequences of length <= 3, binary (ascii for length <= 2); 3-d: all sequences of "
             "length <= 2; 5 fractured md-grids; 7 time-step label sets; 9 clocks (start, dt, steps) through the model mixin; 9 "
             "(labels, times) assignments through write_pvd(times=); 16 time-information round trips (constant / "
             "adaptive x 4 reader bounds x {assigned, computed} dt histories) x every index",
    "thorough": "2-d: all 84 sequences x {binary, ascii}; 3-d: all 39 sequences of length <= 3 x {binary, ascii}; "
                "5 fractured md-grids x {binary, ascii}; 9 label sets; 13 clocks; 9 (labels, times) assignments; 16 time-information round trips",
}
MIN_CLASSES = 6
CHUNK = 2

STEP_SETS = [[1], [1, 2], [0, 1, 2], [2, 10], [9, 10, 11], [0, 7], list(range(12))]
STEP_SETS_T = STEP_SETS + [[99, 100], [5]]
# (start time, dt, number of steps): unit steps, fractional times, large offsets with small steps (where
# "%f", the format of the pvd file, still separates the times), tiny times
CLOCKS = [(0.0, 1.0, 3), (0.0, 0.25, 4), (0.0, 0.5, 4), (0.0, 2.5, 4), (1.0e6, 1.0, 3), (999997.0, 1.0, 3),
          (1.0e8, 1.0, 3), (0.0, 1.0e-6, 3), (1.0e6, 0.25, 4)]
CLOCKS_T = CLOCKS + [(0.0, 0.1, 3), (0.0, 1.0, 12), (1.0e5, 1.0, 3), (5.0, 0.5, 6)]
# (labels in the order written, times passed to write_pvd): times[i] belongs to the files with label labels[i]
PVD_TIMES = [
    ([0, 1, 2, 3], [1.0e6, 1.0e6 + 1, 1.0e6 + 2, 1.0e6 + 3]),
    ([0, 1, 2, 3], [999997.0, 999998.0, 999999.0, 1000000.0]),
    ([0, 1, 2, 3], [1.0e9, 1.0e9 + 1e-3, 1.0e9 + 2e-3, 1.0e9 + 3e-3]),
    ([0, 1, 2, 3], [0.0, 1e-6, 2e-6, 3e-6]),
    ([4, 5, 6], [100000.0, 100001.0, 100002.0]),
    ([5, 3, 8], [0.5, 1.5, 1.0]),          # latest time belongs to neither the last nor the largest label
    ([2, 1, 0], [1.0, 2.0, 3.0]),          # labels decrease while time increases
    ([7, 8], [-1.0, -0.5]),
    ([1, 2, 3], [0.1, 0.2, 0.30000000000000004]),
]


# time-information round trip: the writer has dt_min_max = (0.2, 0.5); written dt values lie inside, on and
# outside these bounds; the restoring TimeManager has the same or other bounds
TI_WRITER_BOUNDS = (0.2, 0.5)
TI_DTS = [0.3, 0.1, 0.8, 0.2, 0.5, 0.25, 0.0625, 1.5]
TI_READER_BOUNDS = [(0.2, 0.5), (0.05, 0.1), (1.0, 2.0), (0.25, 0.4)]


def cases(tier):
    out = []
    for n in (1, 2, 3):
        for seq in itertools.product(G.LETTERS_2D, repeat=n):
            out.append({"kind": "seq", "seq": "".join(seq), "binary": True})
            if tier == "thorough" or n <= 2:
                out.append({"kind": "seq", "seq": "".join(seq), "binary": False})
    for n in (1, 2) if tier == "quick" else (1, 2, 3):
        for seq in itertools.product(G.LETTERS_3D, repeat=n):
            out.append({"kind": "seq", "seq": "".join(seq), "binary": True})
            if tier == "thorough":
                out.append({"kind": "seq", "seq": "".join(seq), "binary": False})
    for name in G.FRACTURED:
        out.append({"kind": "frac", "name": name, "binary": True})
        if tier == "thorough":
            out.append({"kind": "frac", "name": name, "binary": False})
    for s in STEP_SETS if tier == "quick" else STEP_SETS_T:
        out.append({"kind": "steps", "labels": s})
    for t0, dt, n in CLOCKS if tier == "quick" else CLOCKS_T:
        out.append({"kind": "clock", "t0": t0, "dt": dt, "n": n})
    for labels, times in PVD_TIMES:
        out.append({"kind": "pvdtimes", "labels": labels, "times": times})
    for constant in (True, False):
        for reader in TI_READER_BOUNDS:
            for source in ("assigned", "adaptive"):
                out.append({"kind": "timeinfo", "constant_dt": constant, "reader_dt_min_max": list(reader), "source": source})
    return out


# ----------------------------------------------------------------------------- data


def _entities(mdg):
    sds = list(mdg.subdomains())
    intfs = list(mdg.interfaces(codim=1))
    return sds, intfs


def _field(kind, rank, n, step, vec):
    base = (1000.0 if kind == "sd" else 500000.0) * (rank + 1) + 100000.0 * (step + 1)
    v = base + np.arange(n)
    if not vec:
        return v + 0.25
    return np.vstack([v + 0.125, -(v + 0.5), v + 0.75]).ravel("F")


def _write_all(mdg, folder, name, labels, binary, via_strings, times=None, keep=None):
    """Export one vtu set per label; returns the data written at the LAST call."""
    import porepy as pp

    ex = pp.Exporter(mdg, name, folder_name=folder, binary=binary)
    sds, intfs = _entities(mdg)
    last = None
    for s in labels:
        written = {}
        data = []
        handed = []  # (array handed to the exporter, pristine copy)
        for r, sd in enumerate(sds):
            for key, vec in (("p", False), ("v", True)):
                val = _field("sd", r, sd.num_cells, s, vec)
                written[("sd", r, key)] = val
                if via_strings:
                    pp.set_solution_values(key, val.copy(), mdg.subdomain_data(sd), time_step_index=0)
                else:
                    data.append((sd, key, val.copy()))
                    handed.append((data[-1][2], val))
        for r, intf in enumerate(intfs):
            for key, vec in (("lam", False), ("w", True)):
                val = _field("intf", r, intf.num_cells, s, vec)
                written[("intf", r, key)] = val
                if via_strings:
                    pp.set_solution_values(key, val.copy(), mdg.interface_data(intf), time_step_index=0)
                else:
                    data.append((intf, key, val.copy()))
                    handed.append((data[-1][2], val))
        if via_strings:
            ex.write_vtu(["p", "v"] + (["lam", "w"] if intfs else []), time_step=s)
        else:
            ex.write_vtu(data, time_step=s)
        if via_strings:
            # the md-grid dictionaries are the argument: they must still hold what was stored
            handed = [(np.asarray(v), written[k]) for k, v in _read_back(mdg).items() if v is not None]
        if any(not np.array_equal(a, b) for a, b in handed):
            raise _Impure("write_vtu modified the data arrays it was given")
        if keep is not None:
            keep[s] = written
        last = written
    if times is None:
        ex.write_pvd()
    else:
        t_arr = np.array(times, dtype=float)
        ex.write_pvd(times=t_arr)
        if not np.array_equal(t_arr, np.array(times, dtype=float)):
            raise _Impure("write_pvd modified the array of times")
    return last, ex


class _Impure(Exception):
    pass


def _read_back(mdg2):
    import porepy as pp

    got = {}
    sds, intfs = _entities(mdg2)
    for r, sd in enumerate(sds):
        d = mdg2.subdomain_data(sd)
        for key in ("p", "v"):
            try:
                got[("sd", r, key)] = np.asarray(pp.get_solution_values(key, d, time_step_index=0))
            except Exception:
                got[("sd", r, key)] = None
    for r, intf in enumerate(intfs):
        d = mdg2.interface_data(intf)
        for key in ("lam", "w"):
            try:
                got[("intf", r, key)] = np.asarray(pp.get_solution_values(key, d, time_step_index=0))
            except Exception:
                got[("intf", r, key)] = None
    return got


def _compare(written, got, exact):
    for k, w in written.items():
        g = got.get(k)
        if g is None:
            return (f"no value restored for {k}", None, w)
        if g.shape != w.shape:
            return (f"restored array for {k} has shape {g.shape}, written {w.shape}", g, w)
        ok = np.array_equal(g, w) if exact else np.all(np.abs(g - w) <= 1e-10 * np.abs(w))
        if not ok:
            return (f"restored values differ from the written ones for {k}", g, w)
    return None


def _cell_type_signature(mdg):
    """Number of distinct (nodes per cell) among all cells of each dimension."""
    sig = {}
    for sd in mdg.subdomains():
        if sd.dim >= 2:
            n = np.asarray(sd.cell_nodes().sum(axis=0)).ravel()
            sig.setdefault(sd.dim, set()).update(int(x) for x in n)
    return max((len(v) for v in sig.values()), default=1)


def _routes(folder, name, mdg, last_label, has_intf):
    dims = sorted({sd.dim for sd in mdg.subdomains()}, reverse=True)
    mdims = sorted({i.dim for i in mdg.interfaces(codim=1)}, reverse=True)
    tag = str(last_label).zfill(6)
    files = [folder / f"{name}_{d}_{tag}.vtu" for d in dims] + [folder / f"{name}_mortar_{d}_{tag}.vtu" for d in mdims]
    return [("vtu", files), ("pvd", folder / f"{name}.pvd"), ("mdgpvd", folder / f"{name}_{tag}.pvd")]


def _roundtrip(out, case, build, desc, labels, binary, via_strings, tagcls, times=None):
    import porepy as pp

    folder = Path("exp_" + "".join(ch if ch.isalnum() else "_" for ch in str(sorted(case.items())))[:120])
    name = "c38"
    keep: dict = {}
    try:
        mdg = build()
        _write_all(mdg, folder, name, labels, binary, via_strings, times=times, keep=keep)
    except _Impure as e:
        out.violate(str(e), **desc)
        out.ev("VIOLATION")
        _cleanup(folder)
        return
    except Exception as e:
        out.violate("export raised", error=repr(e), **desc)
        out.ev("VIOLATION")
        _cleanup(folder)
        return
    # the most recent state: last label written, or the label attached to the largest time
    last = labels[-1] if times is None else labels[int(np.argmax(times))]
    written = keep[last]
    ntypes = _cell_type_signature(mdg)
    has_intf = len(list(mdg.interfaces(codim=1))) > 0
    keys = ["p", "v"] + (["lam", "w"] if has_intf else [])
    routes = _routes(folder, name, mdg, last, has_intf)
    nfiles = len(routes[0][1])
    older = [l for l in labels if l != last]
    for route, arg in routes:
        for keymode in ("given", "from-mdg") if (via_strings and route == "vtu") else ("given",):
            mdg2 = build()
            if keymode == "from-mdg":
                sds, intfs = _entities(mdg2)
                for sd in sds:
                    for key, m in (("p", 1), ("v", 3)):
                        pp.set_solution_values(key, np.zeros(m * sd.num_cells), mdg2.subdomain_data(sd), time_step_index=0)
                for intf in intfs:
                    for key, m in (("lam", 1), ("w", 3)):
                        pp.set_solution_values(key, np.zeros(m * intf.num_cells), mdg2.interface_data(intf), time_step_index=0)
            d2 = dict(desc, route=route, keys=keymode, time_step_labels=labels, binary=binary)
            if times is not None:
                d2["times"] = list(times)
            k = keys if keymode == "given" else None

            def do_import(ex2):
                if route == "vtu":
                    ex2.import_state_from_vtu(list(arg), keys=k)
                    return None
                if route == "pvd":
                    return ex2.import_from_pvd(arg, keys=k)
                return ex2.import_from_pvd(arg, is_mdg_pvd=True, keys=k)

            try:
                ex2 = pp.Exporter(mdg2, "imp", folder_name=folder / "imp")
                if route == "vtu" and older:
                    # an older state is imported first; the later import must replace it completely
                    ex2.import_state_from_vtu(list(_routes(folder, name, mdg, older[0], has_intf)[0][1]), keys=k)
                idx = do_import(ex2)
            except Exception as e:
                out.violate("import raised", error=repr(e), **d2)
                out.ev("VIOLATION")
                continue
            bad = _compare(written, _read_back(mdg2), exact=binary)
            nontriv = ntypes > 1 or has_intf or len(labels) > 1
            key = (str(case), route, keymode) if nontriv else None
            rf = getattr(ex2, "_restart_files", None)
            what = None
            if bad is not None:
                out.violate(bad[0], restored=bad[1], written=bad[2], **d2)
                out.ev("VIOLATION")
                continue
            if idx is not None and idx != last:
                what = ("import_from_pvd returned a time index that is not the most recent one", idx, last)
            elif route != "vtu" and rf is not None and len(rf) != nfiles:
                what = ("number of vtu files registered for the restart step differs from the files of one step",
                        [str(f) for f in rf], nfiles)
            else:
                # a second import into the same md-grid must give the same state again
                try:
                    idx2 = do_import(ex2)
                    bad = _compare(written, _read_back(mdg2), exact=binary)
                    if bad is not None or idx2 != idx:
                        what = ("second import into the same md-grid differs from the first", idx2, idx)
                except Exception as e:
                    what = ("second import into the same md-grid raised", repr(e), None)
            if what is not None:
                out.violate(what[0], got=what[1], expected=what[2], **d2)
                out.ev("VIOLATION")
            else:
                out.ev(f"{tagcls}/{route}/{'bin' if binary else 'ascii'}/types{ntypes}/{'intf' if has_intf else 'nointf'}"
                       f"/steps{min(len(labels), 3)}{'+' if len(labels) > 3 else ''}", key)
    _cleanup(folder)


def _cleanup(folder):
    import shutil

    shutil.rmtree(folder, ignore_errors=True)


# ----------------------------------------------------------------------------- clock (model mixin)


def _run_clock(out, case):
    import porepy as pp
    from porepy.viz.data_saving_model_mixin import DataSavingMixin

    t0, dt, n = case["t0"], case["dt"], case["n"]
    times = [t0 + k * dt for k in range(n + 1)]
    folder = Path("clock_" + "".join(ch if ch.isalnum() else "_" for ch in f"{t0}_{dt}_{n}"))

    class Mini(DataSavingMixin):
        def __init__(self, folder):
            self.mdg = G.mdg_from_sequence("QT")
            self.params = {"folder_name": folder, "file_name": "m"}
            self.time_manager = pp.TimeManager(schedule=[times[0], times[-1]], dt_init=dt, constant_dt=True)
            self.restart_options = {}
            self.exporter = pp.Exporter(self.mdg, "m", folder_name=folder)
            self.step = 0

        def data_to_export(self):
            return [(sd, "p", _field("sd", r, sd.num_cells, self.step, False)) for r, sd in enumerate(self.mdg.subdomains())]

    desc = {"start_time": t0, "dt": dt, "steps": n}
    try:
        m = Mini(folder)
        m.write_pvd_and_vtu()  # initial state
        for k in range(n):
            m.time_manager.time = times[k + 1]  # the clock of the simulation (no accumulated round-off)
            m.time_manager.increase_time_index()
            m.step = k + 1
            m.write_pvd_and_vtu()
        t_last, dt_last = float(m.time_manager.time), float(m.time_manager.dt)
        written = {("sd", r, "p"): _field("sd", r, sd.num_cells, m.step, False) for r, sd in enumerate(m.mdg.subdomains())}
        times_written = list(m.time_manager.exported_times)
    except Exception as e:
        out.violate("writing with the model mixin raised", error=repr(e), **desc)
        out.ev("VIOLATION")
        _cleanup(folder)
        return
    shown = ["%f" % t for t in times_written]
    if len(set(shown)) < len(shown):
        # the pvd format ("%f") cannot tell these times apart: not a letter of the plain pvd route
        out.ev("clock/skipped:times-not-representable-in-pvd")
        _cleanup(folder)
        return
    # (a) pure time-information round trip
    try:
        tm = pp.TimeManager(schedule=[times[0], times[-1]], dt_init=dt, constant_dt=True)
        tm.load_time_information(folder / "times.json")
        if list(tm.exported_times) != times_written or list(tm.exported_dt) != list(m.time_manager.exported_dt):
            out.violate("load_time_information does not restore what write_time_information wrote",
                        written=times_written, read=list(tm.exported_times), **desc)
            out.ev("VIOLATION")
        else:
            out.ev("clock/times.json", ("times", t0, dt, n))
    except Exception as e:
        out.violate("load_time_information raised", error=repr(e), **desc)
        out.ev("VIOLATION")
    # (b) restart through the mixin: plain pvd and md-grid pvd
    for route in ("pvd", "mdgpvd"):
        d2 = dict(desc, route=route, exported_times=times_written)
        try:
            m2 = Mini(folder / ("restart_" + route))
            if route == "pvd":
                m2.load_data_from_pvd(folder / "m.pvd", times_file=folder / "times.json", keys=["p"])
            else:
                m2.load_data_from_pvd(folder / f"m_{str(n).zfill(6)}.pvd", is_mdg_pvd=True,
                                      times_file=folder / "times.json", keys=["p"])
        except Exception as e:
            out.violate("restart through the model mixin raised", error=repr(e), **d2)
            out.ev("VIOLATION")
            continue
        got = {("sd", r, "p"): np.asarray(pp.get_solution_values("p", m2.mdg.subdomain_data(sd), time_step_index=0))
               for r, sd in enumerate(m2.mdg.subdomains())}
        bad = _compare(written, got, exact=True)
        regime = ("unit-steps" if (dt == 1.0 and t0 == 0.0) else "large-offset" if abs(t0) >= 1e5 else
                  "tiny" if dt < 1e-4 else "fractional-times")
        rf = getattr(m2.exporter, "_restart_files", None)
        if bad is not None:
            out.violate("restart: " + bad[0], restored=bad[1], written=bad[2], **d2)
            out.ev("VIOLATION")
        elif float(m2.time_manager.time) != t_last or float(m2.time_manager.dt) != dt_last:
            out.violate("restart: time / dt are not the ones written with the most recent time step",
                        restored_time=float(m2.time_manager.time), restored_dt=float(m2.time_manager.dt),
                        written_time=t_last, written_dt=dt_last, **d2)
            out.ev("VIOLATION")
        elif m2.exporter._time_step_counter != n:
            out.violate("restart: the exporter's time step counter is not the most recent time-step index",
                        counter=m2.exporter._time_step_counter, expected=n, **d2)
            out.ev("VIOLATION")
        elif rf is not None and len(rf) != 1:
            out.violate("restart: more than the vtu files of one time step are registered as restart files",
                        restart_files=[str(f) for f in rf], **d2)
            out.ev("VIOLATION")
        else:
            out.ev(f"clock/{route}/{regime}", ("clock", t0, dt, n, route))
    _cleanup(folder)


# ----------------------------------------------------------------------------- time information


def _run_timeinfo(out, case):
    import porepy as pp

    constant = case["constant_dt"]
    rb = tuple(case["reader_dt_min_max"])
    folder = Path("ti_" + "".join(ch if ch.isalnum() else "_" for ch in str(sorted(case.items())))[:100])
    path = folder / "times.json"
    desc = {"constant_dt": constant, "writer_dt_min_max": list(TI_WRITER_BOUNDS), "reader_dt_min_max": list(rb),
            "source": case["source"]}
    try:
        # a constant clock needs a dt that divides the schedule
        tm = pp.TimeManager(schedule=[0.0, 1.0, 2.0] if case["source"] == "adaptive" else [0.0, 10.0],
                            dt_init=0.25 if constant else 0.3, constant_dt=constant, dt_min_max=TI_WRITER_BOUNDS)
        written = []
        if case["source"] == "assigned":
            t = 0.0
            for dt in TI_DTS:
                tm.time, tm.dt = t, dt
                tm.write_time_information(path)
                written.append((float(tm.time), float(tm.dt)))
                t = t + dt
        else:
            # a real run of the clock: the schedule correction is applied last, so that time steps below
            # dt_min are written legitimately (t = 0.9 -> dt = 0.1)
            tm.write_time_information(path)
            written.append((float(tm.time), float(tm.dt)))
            for _ in range(40):
                if tm.final_time_reached():
                    break
                tm.increase_time()
                tm.increase_time_index()
                if not constant:
                    tm.compute_time_step(iterations=5)
                elif tm.time + tm.dt > tm.time_final:
                    break
                tm.write_time_information(path)
                written.append((float(tm.time), float(tm.dt)))
    except Exception as e:
        # the writing clock itself is not the subject; a configuration it rejects is not a letter
        out.ev("timeinfo/skipped:writer-" + type(e).__name__)
        _cleanup(folder)
        return
    lo, hi = TI_WRITER_BOUNDS
    for k in list(range(len(written))) + [-1]:
        t_w, dt_w = written[k]
        d2 = dict(desc, time_index=k, written_time=t_w, written_dt=dt_w, history=written)
        try:
            tm2 = pp.TimeManager(schedule=[0.0, 10.0], dt_init=0.25 if constant else 0.5 * (rb[0] + rb[1]),
                                 constant_dt=constant, dt_min_max=rb)
            tm2.load_time_information(path)
            tm2.set_time_and_dt_from_exported_steps(k)
        except Exception as e:
            out.violate("restoring time and dt from the written time information raised", error=repr(e), **d2)
            out.ev("VIOLATION")
            continue
        if float(tm2.time) != t_w or float(tm2.dt) != dt_w:
            out.violate("restored time / dt differ from the written ones", restored_time=float(tm2.time),
                        restored_dt=float(tm2.dt), **d2)
            out.ev("VIOLATION")
            continue
        where = "below-min" if dt_w < rb[0] else "above-max" if dt_w > rb[1] else "inside"
        wherew = "below-min" if dt_w < lo else "above-max" if dt_w > hi else "inside"
        out.ev(f"timeinfo/{'constant' if constant else 'adaptive'}/{case['source']}/writer-{wherew}/reader-{where}",
               ("ti", constant, rb, case["source"], k) if (where != "inside" or wherew != "inside") else None)
    _cleanup(folder)


# ----------------------------------------------------------------------------- driver


def run_case(case) -> Outcome:
    out = Outcome()
    kind = case["kind"]
    if kind == "seq":
        seq = case["seq"]
        _roundtrip(out, case, lambda: G.mdg_from_sequence(seq), {"subdomains": seq}, [1, 2], case["binary"], False,
                   f"seq{len(seq)}{'d3' if seq[0] in G.LETTERS_3D else 'd2'}")
    elif kind == "frac":
        name = case["name"]
        for via_strings in (False, True):
            _roundtrip(out, dict(case, via=via_strings), lambda: G.mdg_fractured(name),
                       {"md_grid": name, "data_given_as": "keys" if via_strings else "tuples"}, [1, 2], case["binary"],
                       via_strings, f"frac/{name}")
    elif kind == "steps":
        _roundtrip(out, case, lambda: G.mdg_from_sequence("Q"), {"subdomains": "Q"}, list(case["labels"]), True, False,
                   "steps")
    elif kind == "timeinfo":
        _run_timeinfo(out, case)
    elif kind == "pvdtimes":
        _roundtrip(out, case, lambda: G.mdg_fractured("cart2-1f"), {"md_grid": "cart2-1f"}, list(case["labels"]), True,
                   False, "pvdtimes", times=list(case["times"]))
    else:
        _run_clock(out, case)
    if not out.samples:
        out.samples.append({"case": jsonable(case), "classes": dict(out.classes)})
    return out


def known_finding(case, viol):
    # The four import defects found by this check (cell-type permutation not undone, latest time step
    # chosen by string order, time index taken from the physical time, polyhedron blocks in an order
    # meshio cannot read back) were fixed in /repo; nothing is known.
    return None
