"""C38 — exported states are restored exactly on import.

Engine E. An md-grid is built from letters, cell data whose value encodes (entity rank,
cell index, time step) are written for several time steps with the real ``Exporter``,
then a second, independently built md-grid of the same geometry is filled through
``import_state_from_vtu`` / ``import_from_pvd`` (plain and md-grid pvd) and compared cell
by cell with what was written at the most recent time-step index.

Alphabets:
  * every sequence of <= 3 two-dimensional subdomains over {Q quads, T triangles, P polygon
    grid (triangle, pentagon, 2 quads), M triangle|quad|triangle}, so that cell types interleave
    across and inside grids; likewise 3-d over {H hexahedra, E tetrahedra, Y polyhedra};
  * fractured md-grids with interfaces (Cartesian 2-d / 3-d, crossing fractures with a 0-d
    grid, gmsh simplices, a fractured grid plus an unconnected triangle grid);
  * sets of time-step labels, including labels with different numbers of digits;
  * the model mixin (``DataSavingMixin.write_pvd_and_vtu`` / ``load_data_from_pvd``) with a
    real ``TimeManager`` for several (final time, dt): time, dt and data after the restart.

Oracle: the arrays that were written and the clock that wrote them.
"""

from __future__ import annotations

import itertools
from pathlib import Path

import numpy as np

from mc.core import Outcome, jsonable
from mc.oracles import grpL_exp as G

PROPERTY = "C38"
LEVEL = "exploration"
RULE = (
    "one case = one md-grid (sequence of subdomain letters, or a fractured md-grid) x {binary, ascii}, or "
    "one set of time-step labels, or one (final time, dt) of the model mixin; inside it every import "
    "route (vtu files, pvd, md-grid pvd; keys given or taken from the md-grid). Non-trivial = at least "
    "two different cell types among the cells of one dimension, or interfaces present, or more than "
    "one time step; distinct by (case, import route)"
)
ASSUMPTIONS = [
    "binary vtu: exact equality; ascii vtu: relative 1e-10 (meshio prints ascii with finite precision)",
    "vector cell data are written as flat arrays (3 components per cell, cell-wise contiguous) and compared "
    "with the flat array that is restored",
    "the md-grid used for the import is built by the same deterministic builder as the exported one",
    "time: after DataSavingMixin.load_data_from_pvd the time manager must hold the last written time and dt",
]
BOUNDS = {
    "quick": "2-d: all 84 letter sequences of length <= 3, binary (ascii for length <= 2); 3-d: all sequences of "
             "length <= 2; 5 fractured md-grids; 7 time-step label sets; 4 (T, dt) pairs",
    "thorough": "2-d: all 84 sequences x {binary, ascii}; 3-d: all 39 sequences of length <= 3 x {binary, ascii}; "
                "5 fractured md-grids x {binary, ascii}; 9 label sets; 6 (T, dt) pairs",
}
MIN_CLASSES = 6
CHUNK = 2

STEP_SETS = [[1], [1, 2], [0, 1, 2], [2, 10], [9, 10, 11], [0, 7], list(range(12))]
STEP_SETS_T = STEP_SETS + [[99, 100], [5]]
CLOCKS = [(3.0, 1.0), (1.0, 0.25), (2.0, 0.5), (10.0, 2.5)]
CLOCKS_T = CLOCKS + [(0.3, 0.1), (12.0, 1.0)]


def cases(tier):
    out = []
    for n in (1, 2, 3):
        for seq in itertools.product(G.LETTERS_2D, repeat=n):
            out.append({"kind": "seq", "seq": "".join(seq), "binary": True})
            if tier == "thorough" or n <= 2:
                out.append({"kind": "seq", "seq": "".join(seq), "binary": False})
    for n in (1, 2) if tier == "quick" else (1, 2, 3):
        for seq in itertools.product(G.LETTERS_3D, repeat=n):
            out.append({"kind": "seq", "seq": "".join(seq), "binary": True})
            if tier == "thorough":
                out.append({"kind": "seq", "seq": "".join(seq), "binary": False})
    for name in G.FRACTURED:
        out.append({"kind": "frac", "name": name, "binary": True})
        if tier == "thorough":
            out.append({"kind": "frac", "name": name, "binary": False})
    for s in STEP_SETS if tier == "quick" else STEP_SETS_T:
        out.append({"kind": "steps", "labels": s})
    for T, dt in CLOCKS if tier == "quick" else CLOCKS_T:
        out.append({"kind": "clock", "T": T, "dt": dt})
    return out


# ----------------------------------------------------------------------------- data


def _entities(mdg):
    sds = list(mdg.subdomains())
    intfs = list(mdg.interfaces(codim=1))
    return sds, intfs


def _field(kind, rank, n, step, vec):
    base = (1000.0 if kind == "sd" else 500000.0) * (rank + 1) + 100000.0 * (step + 1)
    v = base + np.arange(n)
    if not vec:
        return v + 0.25
    return np.vstack([v + 0.125, -(v + 0.5), v + 0.75]).ravel("F")


def _write_all(mdg, folder, name, labels, binary, via_strings):
    """Export one vtu set per label; returns the data written at the LAST call."""
    import porepy as pp

    ex = pp.Exporter(mdg, name, folder_name=folder, binary=binary)
    sds, intfs = _entities(mdg)
    last = None
    for s in labels:
        written = {}
        data = []
        for r, sd in enumerate(sds):
            for key, vec in (("p", False), ("v", True)):
                val = _field("sd", r, sd.num_cells, s, vec)
                written[("sd", r, key)] = val
                if via_strings:
                    pp.set_solution_values(key, val.copy(), mdg.subdomain_data(sd), time_step_index=0)
                else:
                    data.append((sd, key, val.copy()))
        for r, intf in enumerate(intfs):
            for key, vec in (("lam", False), ("w", True)):
                val = _field("intf", r, intf.num_cells, s, vec)
                written[("intf", r, key)] = val
                if via_strings:
                    pp.set_solution_values(key, val.copy(), mdg.interface_data(intf), time_step_index=0)
                else:
                    data.append((intf, key, val.copy()))
        if via_strings:
            ex.write_vtu(["p", "v"] + (["lam", "w"] if intfs else []), time_step=s)
        else:
            ex.write_vtu(data, time_step=s)
        last = written
    ex.write_pvd()
    return last, ex


def _read_back(mdg2):
    import porepy as pp

    got = {}
    sds, intfs = _entities(mdg2)
    for r, sd in enumerate(sds):
        d = mdg2.subdomain_data(sd)
        for key in ("p", "v"):
            try:
                got[("sd", r, key)] = np.asarray(pp.get_solution_values(key, d, time_step_index=0))
            except Exception:
                got[("sd", r, key)] = None
    for r, intf in enumerate(intfs):
        d = mdg2.interface_data(intf)
        for key in ("lam", "w"):
            try:
                got[("intf", r, key)] = np.asarray(pp.get_solution_values(key, d, time_step_index=0))
            except Exception:
                got[("intf", r, key)] = None
    return got


def _compare(written, got, exact):
    for k, w in written.items():
        g = got.get(k)
        if g is None:
            return (f"no value restored for {k}", None, w)
        if g.shape != w.shape:
            return (f"restored array for {k} has shape {g.shape}, written {w.shape}", g, w)
        ok = np.array_equal(g, w) if exact else np.all(np.abs(g - w) <= 1e-10 * np.abs(w))
        if not ok:
            return (f"restored values differ from the written ones for {k}", g, w)
    return None


def _cell_type_signature(mdg):
    """Number of distinct (nodes per cell) among all cells of each dimension."""
    sig = {}
    for sd in mdg.subdomains():
        if sd.dim >= 2:
            n = np.asarray(sd.cell_nodes().sum(axis=0)).ravel()
            sig.setdefault(sd.dim, set()).update(int(x) for x in n)
    return max((len(v) for v in sig.values()), default=1)


def _routes(folder, name, mdg, last_label, has_intf):
    dims = sorted({sd.dim for sd in mdg.subdomains()}, reverse=True)
    mdims = sorted({i.dim for i in mdg.interfaces(codim=1)}, reverse=True)
    tag = str(last_label).zfill(6)
    files = [folder / f"{name}_{d}_{tag}.vtu" for d in dims] + [folder / f"{name}_mortar_{d}_{tag}.vtu" for d in mdims]
    return [("vtu", files), ("pvd", folder / f"{name}.pvd"), ("mdgpvd", folder / f"{name}_{tag}.pvd")]


def _roundtrip(out, case, build, desc, labels, binary, via_strings, tagcls):
    import porepy as pp

    folder = Path("exp_" + "".join(ch if ch.isalnum() else "_" for ch in str(sorted(case.items())))[:120])
    name = "c38"
    try:
        mdg = build()
        written, _ = _write_all(mdg, folder, name, labels, binary, via_strings)
    except Exception as e:
        out.violate("export raised", error=repr(e), **desc)
        out.ev("VIOLATION")
        return
    ntypes = _cell_type_signature(mdg)
    has_intf = len(list(mdg.interfaces(codim=1))) > 0
    keys = ["p", "v"] + (["lam", "w"] if has_intf else [])
    last = labels[-1]
    for route, arg in _routes(folder, name, mdg, last, has_intf):
        for keymode in ("given", "from-mdg") if (via_strings and route == "vtu") else ("given",):
            mdg2 = build()
            if keymode == "from-mdg":
                sds, intfs = _entities(mdg2)
                for sd in sds:
                    for key, m in (("p", 1), ("v", 3)):
                        pp.set_solution_values(key, np.zeros(m * sd.num_cells), mdg2.subdomain_data(sd), time_step_index=0)
                for intf in intfs:
                    for key, m in (("lam", 1), ("w", 3)):
                        pp.set_solution_values(key, np.zeros(m * intf.num_cells), mdg2.interface_data(intf), time_step_index=0)
            d2 = dict(desc, route=route, keys=keymode, time_step_labels=labels, binary=binary)
            try:
                ex2 = pp.Exporter(mdg2, "imp", folder_name=folder / "imp")
                k = keys if keymode == "given" else None
                idx = None
                if route == "vtu":
                    ex2.import_state_from_vtu(list(arg), keys=k)
                elif route == "pvd":
                    idx = ex2.import_from_pvd(arg, keys=k)
                else:
                    idx = ex2.import_from_pvd(arg, is_mdg_pvd=True, keys=k)
            except Exception as e:
                out.violate("import raised", error=repr(e), **d2)
                out.ev("VIOLATION")
                continue
            bad = _compare(written, _read_back(mdg2), exact=binary)
            nontriv = ntypes > 1 or has_intf or len(labels) > 1
            key = (str(case), route, keymode) if nontriv else None
            if bad is not None:
                out.violate(bad[0], restored=bad[1], written=bad[2], **d2)
                out.ev("VIOLATION")
            elif idx is not None and idx != last:
                out.violate("import_from_pvd returned a time index that is not the most recent one", returned=idx,
                            expected=last, **d2)
                out.ev("VIOLATION")
            else:
                out.ev(f"{tagcls}/{route}/{'bin' if binary else 'ascii'}/types{ntypes}/{'intf' if has_intf else 'nointf'}"
                       f"/steps{min(len(labels), 3)}{'+' if len(labels) > 3 else ''}", key)
    _cleanup(folder)


def _cleanup(folder):
    import shutil

    shutil.rmtree(folder, ignore_errors=True)


# ----------------------------------------------------------------------------- clock (model mixin)


def _run_clock(out, case):
    import porepy as pp
    from porepy.viz.data_saving_model_mixin import DataSavingMixin

    T, dt = case["T"], case["dt"]
    folder = Path(f"clock_{str(T).replace('.', '_')}_{str(dt).replace('.', '_')}")

    class Mini(DataSavingMixin):
        def __init__(self, folder):
            self.mdg = G.mdg_from_sequence("QT")
            self.params = {"folder_name": folder, "file_name": "m"}
            self.time_manager = pp.TimeManager(schedule=[0.0, T], dt_init=dt, constant_dt=True)
            self.restart_options = {}
            self.exporter = pp.Exporter(self.mdg, "m", folder_name=folder)
            self.step = 0

        def data_to_export(self):
            return [(sd, "p", _field("sd", r, sd.num_cells, self.step, False)) for r, sd in enumerate(self.mdg.subdomains())]

    desc = {"final_time": T, "dt": dt}
    try:
        m = Mini(folder)
        m.write_pvd_and_vtu()  # initial state
        nsteps = int(round(T / dt))
        for k in range(nsteps):
            m.time_manager.increase_time()
            m.time_manager.increase_time_index()
            m.step = k + 1
            m.write_pvd_and_vtu()
        t_last, dt_last = float(m.time_manager.time), float(m.time_manager.dt)
        written = {("sd", r, "p"): _field("sd", r, sd.num_cells, m.step, False) for r, sd in enumerate(m.mdg.subdomains())}
        times_written = list(m.time_manager.exported_times)
    except Exception as e:
        out.violate("writing with the model mixin raised", error=repr(e), **desc)
        out.ev("VIOLATION")
        _cleanup(folder)
        return
    # (a) pure time-information round trip
    try:
        tm = pp.TimeManager(schedule=[0.0, T], dt_init=dt, constant_dt=True)
        tm.load_time_information(folder / "times.json")
        if list(tm.exported_times) != times_written or list(tm.exported_dt) != list(m.time_manager.exported_dt):
            out.violate("load_time_information does not restore what write_time_information wrote",
                        written=times_written, read=list(tm.exported_times), **desc)
            out.ev("VIOLATION")
        else:
            out.ev("clock/times.json", ("times", T, dt))
    except Exception as e:
        out.violate("load_time_information raised", error=repr(e), **desc)
        out.ev("VIOLATION")
    # (b) restart through the mixin: plain pvd and md-grid pvd
    for route in ("pvd", "mdgpvd"):
        d2 = dict(desc, route=route, exported_times=times_written)
        try:
            m2 = Mini(folder / ("restart_" + route))
            if route == "pvd":
                m2.load_data_from_pvd(folder / "m.pvd", times_file=folder / "times.json", keys=["p"])
            else:
                m2.load_data_from_pvd(folder / f"m_{str(nsteps).zfill(6)}.pvd", is_mdg_pvd=True,
                                      times_file=folder / "times.json", keys=["p"])
        except Exception as e:
            out.violate("restart through the model mixin raised", error=repr(e), **d2)
            out.ev("VIOLATION")
            continue
        got = {("sd", r, "p"): np.asarray(pp.get_solution_values("p", m2.mdg.subdomain_data(sd), time_step_index=0))
               for r, sd in enumerate(m2.mdg.subdomains())}
        bad = _compare(written, got, exact=True)
        integer_times = all(float(t).is_integer() for t in times_written) and dt == 1.0
        if bad is not None:
            out.violate("restart: " + bad[0], restored=bad[1], written=bad[2], **d2)
            out.ev("VIOLATION")
        elif abs(float(m2.time_manager.time) - t_last) > 1e-12 * max(1.0, T) or abs(float(m2.time_manager.dt) - dt_last) > 1e-12:
            out.violate("restart: time / dt are not the ones written with the most recent time step",
                        restored_time=float(m2.time_manager.time), restored_dt=float(m2.time_manager.dt),
                        written_time=t_last, written_dt=dt_last, **d2)
            out.ev("VIOLATION")
        else:
            out.ev(f"clock/{route}/{'unit-steps' if integer_times else 'fractional-times'}", ("clock", T, dt, route))
    _cleanup(folder)


# ----------------------------------------------------------------------------- driver


def run_case(case) -> Outcome:
    out = Outcome()
    kind = case["kind"]
    if kind == "seq":
        seq = case["seq"]
        _roundtrip(out, case, lambda: G.mdg_from_sequence(seq), {"subdomains": seq}, [1, 2], case["binary"], False,
                   f"seq{len(seq)}{'d3' if seq[0] in G.LETTERS_3D else 'd2'}")
    elif kind == "frac":
        name = case["name"]
        for via_strings in (False, True):
            _roundtrip(out, dict(case, via=via_strings), lambda: G.mdg_fractured(name),
                       {"md_grid": name, "data_given_as": "keys" if via_strings else "tuples"}, [1, 2], case["binary"],
                       via_strings, f"frac/{name}")
    elif kind == "steps":
        _roundtrip(out, case, lambda: G.mdg_from_sequence("Q"), {"subdomains": "Q"}, list(case["labels"]), True, False,
                   "steps")
    else:
        _run_clock(out, case)
    if not out.samples:
        out.samples.append({"case": jsonable(case), "classes": dict(out.classes)})
    return out


def known_finding(case, viol):
    # The four import defects found by this check (cell-type permutation not undone, latest time step
    # chosen by string order, time index taken from the physical time, polyhedron blocks in an order
    # meshio cannot read back) were fixed in /repo; nothing is known.
    return None
