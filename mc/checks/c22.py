"""C22 — subgrid extraction and partitioning preserve the parent grid.

Engine E, four families of cases (all enumerated completely within the stated bound):

extract   every non-empty cell subset of the small grid letters (all connected subsets of
          size <= 3 of the larger ones) x {reference position, embedded in 3-d} x four
          ways of passing the cells (sorted indices, reversed indices with sort=False,
          boolean mask, parent without geometry).  Oracle: parent node coordinates,
          parent incidence and parent geometry through the returned node / face maps;
          the subgrid geometry is *recomputed* with compute_geometry and compared.
structured  partition_structured on Cartesian grids: every num_part in 1..num_cells and
          every explicit coarse_dims <= fine dims.  Oracle: labels are integers,
          one per cell, in [0, prod(coarse_dims)).
coords    partition_coordinates on every letter with every target 1..num_cells.
overlap   overlap(g, seed, depth, criterion) for every seed subset of small letters
          (singletons and pairs on larger ones), depth 0..2(3), both criteria, against
          dense neighbour sets; grid_is_connected against a dense BFS.
"""

from __future__ import annotations

import itertools

import numpy as np

from mc.core import Outcome
from mc.oracles import grpG_grids as G

PROPERTY = "C22"
LEVEL = "exploration"
RULE = (
    "extract: one case = (letter, embedding, subset size | 'conn3'), evaluation = one "
    "extract_subgrid call; structured: one case = one Cartesian size, evaluation = one "
    "num_part or coarse_dims; coords: one case = one letter, evaluation = one target; "
    "overlap: one case = (letter, seed size), evaluation = one (seed, depth, criterion) "
    "or one grid_is_connected call; non-trivial = proper subset / more than one part "
    "requested / seed whose closure is not the whole grid at depth 0; distinct by inputs"
)
ASSUMPTIONS = [
    "purity: every call of extract_subgrid, partition_structured, partition_coordinates, "
    "overlap and grid_is_connected must leave its argument grid bitwise unchanged (nodes, "
    "face_nodes raw, cell_faces in canonical form, tags, geometry); each partition / "
    "overlap case works on ONE grid object and re-examines it after every call by "
    "extract_subgrid + compute_geometry against a pristine copy (two-step sequences)",
    "recomputed geometry is compared with tolerance 1e-12 * L^k, L = grid size without absolute floor (scale axis 1e-4, 1e3 included; measured floor 4e-16); "
    "index maps, incidence and copied geometry are compared exactly",
    "'within range' for partition_structured means [0, prod(coarse_dims)): coarse_dims "
    "as given, or as inferred by determine_coarse_dimensions(num_part, cart_dims) "
    "(num_part itself is only a target according to that function's documentation)",
    "partition_coordinates: labels must be non-negative integers, one per cell, below "
    "the number of boxes prod(determine_coarse_dimensions(target, delta_int)) with "
    "delta_int recomputed from the node extents (reference position only)",
    "overlap is compared with the docstring definition (layer k+1 = layer k + all "
    "face- resp. node-neighbours), which implies the property's 'only grows' and "
    "'contains all neighbours of the previous layer'",
    "partition_structured on 1-d tensor grids is part of the alphabet (TensorGrid is "
    "the declared argument type and pp.partition.partition dispatches every TensorGrid "
    "to it)",
]
BOUNDS = {
    "quick": "extract: all subsets of letters <= 8 cells, connected subsets <= 3 cells of the others, 2 embeddings; structured: CartGrid nx<=6 (1-d), nx<=6,ny<=3 (2-d), <=3x3x2 and 5x2x1 (3-d); coords: all letters; overlap: all seeds on letters <= 6 cells, singletons+pairs otherwise, depth<=2",
    "thorough": "extract: all subsets of letters <= 9 cells (2-d) / 12 cells (3-d), connected subsets <= 3 of the others, 3 embeddings; structured: nx<=8 (1-d), nx<=7,ny<=4 (2-d), <=4x3x3 (3-d); overlap: all seeds on letters <= 9 cells, depth<=3",
}
MIN_CLASSES = 8
CHUNK = 2
TOL = 1e-12

MODES = ("sorted", "rev-nosort", "mask", "nogeo")


def _all_subsets_limit(tier, dim):
    if tier == "quick":
        return 8
    return 12 if dim == 3 else 9


def _cart_sizes(tier):
    if tier == "quick":
        one = [[n] for n in range(1, 7)]
        two = [[a, b] for a in range(1, 7) for b in range(1, 4)]
        three = [[a, b, c] for a in range(1, 4) for b in range(1, 4) for c in range(1, 3)] + [[5, 2, 1], [5, 1, 2]]
    else:
        one = [[n] for n in range(1, 9)]
        two = [[a, b] for a in range(1, 8) for b in range(1, 5)]
        three = [[a, b, c] for a in range(1, 5) for b in range(1, 4) for c in range(1, 4)] + [[5, 2, 1], [5, 1, 2], [6, 1, 1]]
    return one + two + three


def cases(tier):
    out = []
    emb = [None, ["q1", "t1"]] + ([["c7", "t2"]] if tier == "thorough" else [])
    for name, spec in G.base_specs(tier):
        d = G.spec_dim(spec)
        nc = G.build(spec).num_cells
        for m in emb if d < 3 else [None]:
            v = dict(spec, motion=m) if m else dict(spec)
            if nc <= _all_subsets_limit(tier, d):
                for k in range(1, nc + 1):
                    out.append({"fam": "extract", "name": name, "spec": v, "k": k})
            else:
                out.append({"fam": "extract", "name": name, "spec": v, "k": "conn3"})
        # scale axis (node coordinates x s): subsets of size 1, 2 and all cells
        for sc, m in ((1e-4, None), (1e3, ["q1", "t1"] if d < 3 else None)):
            v = dict(spec, scale=sc)
            if m:
                v["motion"] = m
            for k in sorted({1, min(2, nc), nc} if nc <= _all_subsets_limit(tier, d) else {1, nc}):
                out.append({"fam": "extract", "name": name, "spec": v, "k": k})
    for n in _cart_sizes(tier):
        out.append({"fam": "structured", "n": n})
    for name, spec in G.base_specs(tier):
        out.append({"fam": "coords", "name": name, "spec": spec})
        if G.spec_dim(spec) < 3:
            out.append({"fam": "coords", "name": name, "spec": dict(spec, motion=["q1", "t1"])})
    lim = 6 if tier == "quick" else 9
    for name, spec in G.base_specs(tier):
        nc = G.build(spec).num_cells
        ks = range(1, nc + 1) if nc <= lim else (1, 2)
        for k in ks:
            out.append({"fam": "overlap", "name": name, "spec": spec, "k": k, "depth": 2 if tier == "quick" else 3})
    return out


# ------------------------------------------------------------------ extraction


def _subsets(g, k):
    nc = g.num_cells
    if k != "conn3":
        yield from (list(c) for c in itertools.combinations(range(nc), k))
        return
    A = np.abs(G.dense_incidence(g))
    adj = (A.T @ A) > 0
    np.fill_diagonal(adj, False)
    nb = [set(int(j) for j in np.where(adj[i])[0]) for i in range(nc)]
    seen = set()
    for i in range(nc):
        seen.add((i,))
        for j in nb[i]:
            seen.add(tuple(sorted((i, j))))
            for l in nb[i] | nb[j]:
                if l not in (i, j):
                    seen.add(tuple(sorted((i, j, l))))
    for c in sorted(seen, key=lambda c: (len(c), c)):
        yield list(c)


def _close(a, b, scale):
    a, b = np.asarray(a, float), np.asarray(b, float)
    if a.shape != b.shape:
        return False, float("inf")
    d = float(np.abs(a - b).max()) if a.size else 0.0
    return d <= TOL * scale, d


def _extract_one(pp, g_geo, g_raw, cells, mode, label, out):
    nc = g_geo.num_cells
    cs = np.array(sorted(cells))
    parent = g_geo
    if mode == "nogeo":
        parent = g_raw
    try:
        with G.Pure(out, "extract_subgrid", [parent], grid=label, cells=cells, mode=mode) as pure:
            if mode == "rev-nosort":
                h, fmap, nmap = pp.partition.extract_subgrid(parent, cs[::-1].copy(), sort=False)
                order = cs[::-1]
            elif mode == "mask":
                mask = np.zeros(nc, dtype=bool)
                mask[cs] = True
                h, fmap, nmap = pp.partition.extract_subgrid(parent, mask)
                order = cs
            else:
                h, fmap, nmap = pp.partition.extract_subgrid(parent, cs.copy())
                order = cs
    except Exception as e:
        out.violate("extract_subgrid raised", grid=label, cells=cells, mode=mode, error=repr(e))
        return "VIOLATION"
    if pure.changed:
        return "VIOLATION"
    D = G.dense_incidence(parent)
    FN = parent.face_nodes.toarray() != 0
    fmap = np.asarray(fmap)
    nmap = np.asarray(nmap)
    bad = None
    exp_faces = np.where(np.abs(D[:, cs]).sum(axis=1) > 0)[0]
    exp_nodes = np.where(FN[:, exp_faces].sum(axis=1) > 0)[0]
    if h.dim != parent.dim or h.num_cells != len(cs) or h.num_faces != fmap.size or h.num_nodes != nmap.size:
        bad = "sizes inconsistent with maps"
    elif not np.array_equal(np.asarray(h.parent_cell_ind), order):
        bad = "parent_cell_ind differs from requested cells"
    elif not np.array_equal(np.sort(fmap), exp_faces) or np.unique(fmap).size != fmap.size:
        bad = "face map is not the set of faces of the cells"
    elif not np.array_equal(np.sort(nmap), exp_nodes) or np.unique(nmap).size != nmap.size:
        bad = "node map is not the set of nodes of the cells"
    elif not np.array_equal(h.nodes, parent.nodes[:, nmap]):
        bad = "node coordinates differ from parent nodes through node map"
    elif not np.array_equal(G.dense_incidence(h), D[fmap][:, order]):
        bad = "cell_faces differs from parent incidence through maps"
    else:
        hFN = h.face_nodes.toarray() != 0
        if not np.array_equal(hFN, FN[nmap][:, fmap]):
            bad = "face_nodes differs from parent face_nodes through maps"
    if bad is None and mode != "nogeo":
        for attr, idx in (("cell_volumes", order), ("cell_centers", order), ("face_areas", fmap), ("face_centers", fmap), ("face_normals", fmap)):
            a = getattr(h, attr, None)
            b = getattr(parent, attr)
            b = b[idx] if b.ndim == 1 else b[:, idx]
            if a is None or not np.array_equal(a, b):
                bad = f"copied {attr} differs from parent"
                break
    if bad is None:
        try:
            import warnings

            with warnings.catch_warnings():
                warnings.simplefilter("ignore")
                # the subgrid shares arrays with its parent: recomputing must not write
                # through to the parent
                with G.Pure(out, "compute_geometry of the extracted subgrid", [parent], grid=label, cells=cells, mode=mode) as pure2:
                    h.compute_geometry()
            if pure2.changed:
                return "VIOLATION"
        except Exception as e:
            bad = "compute_geometry of the subgrid raised: " + repr(e)
    detail = {}
    if bad is None:
        L = max(float(np.abs(g_geo.nodes - g_geo.nodes[:, :1]).max()), float(np.abs(g_geo.nodes).max()))
        d = parent.dim
        for attr, idx, sc in (
            ("cell_volumes", order, L**d),
            ("cell_centers", order, L),
            ("face_areas", fmap, L ** (d - 1)),
            ("face_centers", fmap, L),
            ("face_normals", fmap, L ** (d - 1)),
        ):
            b = getattr(g_geo, attr)
            b = b[idx] if b.ndim == 1 else b[:, idx]
            ok, dev = _close(getattr(h, attr), b, sc)
            if not ok:
                bad = f"recomputed {attr} differs from parent"
                detail = {"deviation": dev, "scale": sc, "got": getattr(h, attr), "expected": b}
                break
    if bad:
        out.violate("extract_subgrid: " + bad, grid=label, cells=cells, mode=mode, **detail)
        return "VIOLATION"
    A = np.abs(D[:, cs])
    adj = (A.T @ A) > 0
    conn = _n_components(adj) == 1
    return f"extract/{parent.dim}d/{mode}/" + ("all" if len(cs) == nc else ("connected" if conn else "disconnected"))


def _n_components(adj):
    n = adj.shape[0]
    seen = set()
    comps = 0
    for s in range(n):
        if s in seen:
            continue
        comps += 1
        stack = [s]
        seen.add(s)
        while stack:
            i = stack.pop()
            for j in np.where(adj[i])[0]:
                if int(j) not in seen:
                    seen.add(int(j))
                    stack.append(int(j))
    return comps


def _components(adj):
    n = adj.shape[0]
    seen = set()
    sizes = []
    for s in range(n):
        if s in seen:
            continue
        stack = [s]
        seen.add(s)
        k = 0
        while stack:
            i = stack.pop()
            k += 1
            for j in np.where(adj[i])[0]:
                if int(j) not in seen:
                    seen.add(int(j))
                    stack.append(int(j))
        sizes.append(k)
    return sorted(sizes)


def _run_extract(case, out):
    import warnings

    import porepy as pp

    spec = case["spec"]
    g_geo = G.build(spec)
    with warnings.catch_warnings():
        warnings.simplefilter("ignore")
        g_geo.compute_geometry()
    g_raw = G.build(spec)
    label = case["name"] + ("@" + "".join(spec["motion"]) if spec.get("motion") else "")
    for cells in _subsets(g_geo, case["k"]):
        for mode in MODES:
            cls = _extract_one(pp, g_geo, g_raw, cells, mode, label, out)
            key = (label, mode, tuple(cells)) if len(cells) < g_geo.num_cells else None
            out.ev(cls, key)
    if not out.samples:
        out.samples.append({"family": "extract", "grid": label, "subset_size": case["k"]})


# ------------------------------------------------------------------ sequences on one object


class _Ref:
    """Topology and geometry of a pristine copy of the grid (built separately), against
    which the *same* grid object is re-examined after every call under test."""

    def __init__(self, g):
        import warnings

        with warnings.catch_warnings():
            warnings.simplefilter("ignore")
            g.compute_geometry()
        self.D = G.dense_incidence(g)
        self.geo = {f: getattr(g, f).copy() for f in G.GEOM_FIELDS}
        self.L = max(float(np.abs(g.nodes - g.nodes[:, :1]).max()), float(np.abs(g.nodes).max()))
        self.dim = g.dim


def _followup(g, ref, cells, out, what, **detail):
    """Second step of a two-step sequence: after the call ``what`` on the grid object g,
    extract ``cells`` from the same object, recompute the subgrid geometry and compare
    with the pristine reference. Returns True when everything agrees."""
    import warnings

    from porepy.grids import partition as part

    cells = np.array(sorted(int(c) for c in cells))
    try:
        with warnings.catch_warnings():
            warnings.simplefilter("ignore")
            h, fmap, _ = part.extract_subgrid(g, cells.copy())
            h.compute_geometry()
    except Exception as e:
        out.violate(f"{what} followed by extract_subgrid on the same grid object: raised", cells=cells, error=repr(e), **detail)
        return False
    fmap = np.asarray(fmap)
    if not np.array_equal(G.dense_incidence(h), ref.D[fmap][:, cells]):
        out.violate(f"{what} followed by extract_subgrid on the same grid object: incidence differs from the pristine grid", cells=cells, **detail)
        return False
    d, L = ref.dim, ref.L
    for attr, idx, sc in (
        ("cell_volumes", cells, L**d),
        ("cell_centers", cells, L),
        ("face_areas", fmap, L ** (d - 1)),
        ("face_centers", fmap, L),
        ("face_normals", fmap, L ** (d - 1)),
    ):
        b = ref.geo[attr]
        b = b[idx] if b.ndim == 1 else b[:, idx]
        ok, dev = _close(getattr(h, attr), b, sc)
        if not ok:
            out.violate(f"{what} followed by extract_subgrid on the same grid object: recomputed {attr} differs from the pristine grid", cells=cells, deviation=dev, length_scale=sc, **detail)
            return False
    return True


# ------------------------------------------------------------------ partitioners


def _label_check(p, nc, nparts):
    p = np.asarray(p)
    if p.shape != (nc,):
        return f"shape {p.shape} != ({nc},)"
    if not np.all(np.isfinite(p.astype(float))) or not np.array_equal(p, np.round(p.astype(float))):
        return "labels are not integers"
    if p.min() < 0:
        return "negative label"
    if p.max() >= nparts:
        return f"label {int(p.max())} outside [0, {int(nparts)})"
    return None


def _run_structured(case, out):
    import porepy as pp
    from porepy.grids import partition as part

    n = case["n"]
    mk = lambda: pp.CartGrid(np.array(n) if len(n) > 1 else int(n[0]))  # noqa: E731
    ref = _Ref(mk())
    g = mk()  # ONE object for the whole case: every call is followed by a re-examination
    g.compute_geometry()
    nc = g.num_cells
    d = len(n)
    # explicit coarse dimensions
    for cd in itertools.product(*[range(1, m + 1) for m in n]):
        cd = np.array(cd)
        try:
            with G.Pure(out, "partition_structured", [g], cart=n, coarse_dims=cd) as pure:
                p = part.partition_structured(g, coarse_dims=cd.copy())
            bad = _label_check(p, nc, int(cd.prod()))
            if bad is None and pure.changed:
                bad = "argument grid mutated"
            if bad is None and not _followup(g, ref, np.where(np.asarray(p) == np.asarray(p)[0])[0], out, "partition_structured", cart=n, coarse_dims=cd):
                bad = "sequence check failed"
        except Exception as e:
            p, bad = None, "raised " + repr(e)
        if bad:
            out.violate("partition_structured(coarse_dims): " + bad, cart=n, coarse_dims=cd, labels=p)
            out.ev("VIOLATION")
        else:
            exact = bool(np.all(np.array(n) % cd == 0))
            out.ev(f"structured/{d}d/dims/" + ("divisible" if exact else "remainder"), ("sd", tuple(n), tuple(cd)) if cd.prod() > 1 else None)
    # target number of parts
    for k in range(1, nc + 1):
        try:
            cd = part.determine_coarse_dimensions(k, g.cart_dims)
            with G.Pure(out, "partition_structured", [g], cart=n, num_part=k) as pure:
                p = part.partition_structured(g, num_part=k)
            bad = _label_check(p, nc, int(np.prod(cd)))
            if bad is None and pure.changed:
                bad = "argument grid mutated"
            if bad is None and not _followup(g, ref, np.where(np.asarray(p) == np.asarray(p)[-1])[0], out, "partition_structured", cart=n, num_part=k):
                bad = "sequence check failed"
            if bad is None and np.any(np.asarray(cd) > np.array(n)):
                bad = f"inferred coarse dims {cd} exceed fine dims"
        except Exception as e:
            p, cd, bad = None, None, "raised " + repr(e)
        if bad:
            out.violate("partition_structured(num_part): " + bad, cart=n, num_part=k, coarse_dims=cd, labels=p)
            out.ev("VIOLATION")
        else:
            out.ev(f"structured/{d}d/num_part/" + ("hit" if int(np.prod(cd)) == k else "approx"), ("sn", tuple(n), k) if k > 1 else None)
    if not out.samples:
        out.samples.append({"family": "structured", "cart": n})


def _run_coords(case, out):
    import warnings

    from porepy.grids import partition as part

    spec = case["spec"]
    pristine = _Ref(G.build(spec))
    g = G.build(spec)  # ONE object for the whole case
    with warnings.catch_warnings():
        warnings.simplefilter("ignore")
        g.compute_geometry()
    nc = g.num_cells
    d = g.dim
    ref = not spec.get("motion")
    label = case["name"] + ("" if ref else "@emb")
    for k in range(1, nc + 1):
        try:
            with warnings.catch_warnings():
                warnings.simplefilter("ignore")
                with G.Pure(out, "partition_coordinates", [g], grid=label, spec=spec, target=k) as pure:
                    p = part.partition_coordinates(g, k)
            nparts = np.inf
            if ref:
                ext = g.nodes[:d].max(axis=1) - g.nodes[:d].min(axis=1)
                delta_int = np.ceil(np.power(k, 1 / d) * ext / ext.min()).astype(int)
                nparts = int(np.prod(part.determine_coarse_dimensions(k, delta_int)))
            bad = _label_check(p, nc, nparts)
            if bad is None and pure.changed:
                bad = "argument grid mutated"
            if bad is None and not _followup(g, pristine, np.where(np.asarray(p) == np.asarray(p)[0])[0], out, "partition_coordinates", grid=label, spec=spec, target=k):
                bad = "sequence check failed"
        except Exception as e:
            p, bad = None, "raised " + repr(e)
        if bad:
            out.violate("partition_coordinates: " + bad, grid=label, spec=spec, target=k, labels=p)
            out.ev("VIOLATION")
        else:
            nu = np.unique(p).size
            out.ev(f"coords/{d}d/" + ("ref" if ref else "emb") + "/" + ("1part" if nu == 1 else ("kparts" if nu == k else "other")), ("pc", label, k) if k > 1 else None)
    if not out.samples:
        out.samples.append({"family": "coords", "grid": label})


# ------------------------------------------------------------------ overlap / connectivity


def _run_overlap(case, out):
    from porepy.grids import partition as part

    pristine = _Ref(G.build(case["spec"]))
    g = G.build(case["spec"])  # ONE object for the whole case (all seeds, both criteria)
    import warnings

    with warnings.catch_warnings():
        warnings.simplefilter("ignore")
        g.compute_geometry()
    nc = g.num_cells
    A = np.abs(G.dense_incidence(g))
    FN = (g.face_nodes.toarray() != 0).astype(int)
    CN = (FN @ A) > 0
    nbr = {"face": (A.T @ A) > 0, "node": (CN.T.astype(int) @ CN.astype(int)) > 0}
    label = case["name"]
    for seed in itertools.combinations(range(nc), case["k"]):
        seed = list(seed)
        for crit in ("face", "node"):
            layer = np.zeros(nc, dtype=bool)
            layer[seed] = True
            prev_got = None
            for depth in range(0, case["depth"] + 1):
                if depth > 0:
                    layer = layer | (nbr[crit][layer].any(axis=0))
                bad = None
                got = None
                try:
                    with G.Pure(out, "overlap", [g], grid=label, spec=case["spec"], seed=seed, depth=depth, criterion=crit) as pure:
                        got = np.atleast_1d(part.overlap(g, np.array(seed), depth, criterion=crit))
                    if pure.changed:
                        bad = "argument grid mutated"
                    elif got.dtype.kind not in "iu" or np.unique(got).size != got.size or (got.size and (got.min() < 0 or got.max() >= nc)):
                        bad = "result is not a duplicate-free list of cell indices"
                    else:
                        gs = set(int(v) for v in got)
                        if not set(seed) <= gs:
                            bad = "seed cells missing from the result"
                        elif prev_got is not None and not prev_got <= gs:
                            bad = "layer shrank: deeper overlap does not contain the shallower one"
                        elif prev_got is not None and not set(int(j) for j in np.where(nbr[crit][sorted(prev_got)].any(axis=0))[0]) <= gs:
                            bad = "a neighbour of the previous layer is missing"
                        elif gs != set(int(j) for j in np.where(layer)[0]):
                            bad = "result differs from previous layer + its neighbours (docstring definition)"
                        prev_got = gs
                except Exception as e:
                    bad = "raised " + repr(e)
                if bad:
                    out.violate("overlap: " + bad, grid=label, spec=case["spec"], seed=seed, depth=depth, criterion=crit, got=got, expected=np.where(layer)[0])
                    out.ev("VIOLATION")
                    if bad.startswith("raised"):
                        prev_got = None
                        continue  # deeper layers are still evaluated
                    break
                full = bool(layer.all())
                out.ev(f"overlap/{g.dim}d/{crit}/d{depth}/" + ("full" if full else "partial"), ("ov", label, tuple(seed), crit, depth) if len(seed) < nc else None)
            # second step on the same object: extract the seed cells and re-derive geometry
            if _followup(g, pristine, seed, out, f"overlap(criterion={crit})", grid=label, spec=case["spec"], seed=seed):
                out.ev(f"sequence/overlap-{crit}->extract/{g.dim}d", ("sq", label, tuple(seed), crit))
            else:
                out.ev("VIOLATION")
                g = G.build(case["spec"])  # continue the case on a fresh object
                with warnings.catch_warnings():
                    warnings.simplefilter("ignore")
                    g.compute_geometry()
        # grid_is_connected on the same subset
        try:
            with G.Pure(out, "grid_is_connected", [g], grid=label, spec=case["spec"], cells=seed) as pure:
                flag, comps = part.grid_is_connected(g, np.array(seed))
            sub = nbr["face"][np.ix_(seed, seed)]
            exp = _components(sub)
            bad = None
            if bool(flag) != (len(exp) == 1):
                bad = "is_connected flag differs from BFS over shared faces"
            elif sorted(len(c) for c in comps) != exp:
                bad = "component sizes differ from BFS"
            elif pure.changed:
                bad = "argument grid mutated"
        except Exception as e:
            bad = "raised " + repr(e)
            exp = None
        if bad:
            out.violate("grid_is_connected: " + bad, grid=label, spec=case["spec"], cells=seed, expected_component_sizes=exp)
            out.ev("VIOLATION")
        else:
            out.ev(f"connected/{g.dim}d/" + ("yes" if len(exp) == 1 else "no"), ("gc", label, tuple(seed)) if len(seed) > 1 else None)
    if not out.samples:
        out.samples.append({"family": "overlap", "grid": label, "seed_size": case["k"]})


def run_case(case) -> Outcome:
    out = Outcome()
    {"extract": _run_extract, "structured": _run_structured, "coords": _run_coords, "overlap": _run_overlap}[case["fam"]](case, out)
    return out


def known_finding(case, viol):
    """Predicates on the concrete input only (never on the labels returned)."""
    if case.get("fam") == "overlap" and viol.get("what", "").startswith("overlap"):
        # the exact result (computed by the oracle from the input) is a single cell:
        # np.sort(np.squeeze(...)) is applied to a 0-d array
        exp = viol.get("expected")
        if exp is not None and len(exp) == 1:
            return "C22-overlap-single-cell-result"
        return None
    if case.get("fam") != "structured" or not viol.get("what", "").startswith("partition_structured"):
        return None
    n = case["n"]
    if len(n) == 1:
        # partition_structured has no branch for nd == 1 (glob_dims never assigned)
        return "C22-partition-structured-1d"
    cd = viol.get("coarse_dims")
    if cd is not None:
        # a direction where floor(fine/coarse) steps produce more than coarse+1 increments:
        # only the last surplus increment is dropped, so labels run past coarse-1
        for f, c in zip(n, cd):
            step = f // c
            if step >= 1 and -(-f // step) > c + 1:
                return "C22-partition-structured-remainder"
    return None
