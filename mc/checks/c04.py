"""C04 — flow and energy models conserve mass and energy discretely.

Engine E: closed-boundary, source-free configurations (model family x fracture geometry
x grid x fluid x gravity) x non-solution states (independent patterns for pressure,
temperature and all interface fluxes, a different state at the previous time step) x
{stale, fresh} upwind discretization.

Oracles (sums over all cells of all subdomains):
 (i)   sum(div(flux) - source) == 0                      interior and interface fluxes cancel
 (ii)  sum(balance-equation residual) == (A(x) - A(x_prev)) / dt, with A the accumulation
       term exactly as the shipped equation builds it, evaluated at the two states
 (iii) for the pure flow models (constant porosity and aperture) A is also recomputed in
       closed form on plain numpy: sum V a^(nd-d) phi rho0 exp(c(p-p0) - beta(T-T0)) etc.
"""

from __future__ import annotations

import numpy as np

from mc.core import Outcome
from mc.oracles import grpD_models as G

PROPERTY = "C04"
LEVEL = "exploration"
RULE = (
    "one case = one closed-boundary configuration (family x fracture subset x grid x fluid "
    "x gravity); inside it every state letter x {stale, fresh} upwinding x {mass, energy} "
    "x identities (i) flux/source cancellation, (ii) residual sum = rate of change of the "
    "accumulation, (iii) closed-form accumulation; one evaluation = one identity on one "
    "state; non-trivial = the interface (or, without fractures, interior face) fluxes "
    "entering the sum are non-zero and the accumulation changes between the two time "
    "levels; distinct by (configuration, state, upwind mode, quantity, identity)"
)
ASSUMPTIONS = [
    "history axis: one model object whose boundary condition TYPE changes between two time "
    "steps (flag-dependent bc_type_* mixin: Dirichlet with non-trivial pressure / temperature "
    "data on the west and east sides = open, homogeneous Neumann everywhere = closed); the "
    "change is followed by the shipped per-step path before_nonlinear_loop() + "
    "before_nonlinear_iteration(), with the Darcy / Fourier flux discretizations registered "
    "through add_nonlinear_*_flux_discretization so that they are re-discretized; "
    "'open-closed': set up, discretized and assembled open, then closed -> identities "
    "(i)-(iii) must hold; 'closed-open' (control): identities on the closed model, then open -> "
    "the cell sums must equal the net flux through the external boundary, which is non-zero",
    "closed boundaries = Neumann type with zero values for the Darcy, fluid, Fourier and "
    "enthalpy fluxes on every external boundary face of every subdomain (mixin overriding "
    "the bc_type_* methods); no external sources (shipped default)",
    "states are not solutions: pressure / temperature / interface Darcy, Fourier and "
    "enthalpy fluxes get independent deterministic patterns, the previous time step another "
    "one; 'stale' = upwind matrices from the initial (zero-flux) discretization, 'fresh' = "
    "after model.update_derived_quantities() at the state",
    "tolerance 1e-11 * (sum of |terms| entering the identity); measured floor 1e-15..1e-14",
    "poromechanical families (thorough tier): the mass/energy balances are those of the "
    "coupled models, accumulation evaluated by the model's own operator at both time "
    "levels; mechanics boundary conditions stay at the default",
]
BOUNDS = {
    "quick": "history axis: {open-closed, closed-open} x {flow, mass+energy} x 2-d Cartesian {} {0} "
    "{0,1} x 2 states (thorough: + non-matching {0,1}, simplex {0}, 3-d {0}); 2-d Cartesian, fracture subsets {} {0} {0,1}; unit square with non-matching "
    "fracture (x2) and mortar (x3) refinement, {0} {0,1}; families flow, mass+energy; "
    "compressible/incompressible; gravity off/on; 6 state letters x 2 upwind modes; plus the "
    "differentiable TPFA flux laws (DarcysLawAd, FouriersLawAd) on Cartesian {0} {0,1}",
    "thorough": "quick + 2-d Cartesian {1}; simplex {0} {2} {0,1,2}; 3-d cube {} {0} {0,1} "
    "{0,1,2}; 3-d simplex cube with one fracture cut by a vertical well (codimension-2 well "
    "interfaces); + poromechanics / thermoporomechanics on fractured Cartesian grids; "
    "differentiable TPFA flux laws also on {} , non-matching {0,1}, simplex {0}, 3-d {0}",
}
MIN_CLASSES = 4
CHUNK = 1
TOL = 1e-11


def _cfg(fam, dim, fracs, grid="cart", fluid="comp", grav=False, laws="basic"):
    return {"fam": fam, "dim": dim, "fracs": list(fracs), "grid": grid, "fluid": fluid,
            "laws": laws, "grav": bool(grav), "dt": 0.5}


def cases(tier):
    out = []
    geoms = [(2, [], "cart"), (2, [0], "cart"), (2, [0, 1], "cart"), (2, [0], "nonmatch"), (2, [0, 1], "nonmatch")]
    if tier == "thorough":
        geoms += [(2, [1], "cart"), (2, [0], "simplex"), (2, [2], "simplex"), (2, [0, 1, 2], "simplex"),
                  (3, [], "cart"), (3, [0], "cart"), (3, [0, 1], "cart"), (3, [0, 1, 2], "cart")]
    for fam in ("flow", "mae"):
        for dim, fr, grid in geoms:
            for fluid in ("comp", "incomp"):
                for grav in (False, True):
                    out.append({"cfg": _cfg(fam, dim, fr, grid, fluid, grav)})
    # differentiable two-point flux laws (DarcysLawAd / FouriersLawAd, TPFA base): the
    # interface fluxes must still enter the higher-dimensional balance as Neumann data
    adgeoms = [(2, [0], "cart"), (2, [0, 1], "cart")]
    if tier == "thorough":
        adgeoms += [(2, [], "cart"), (2, [0, 1], "nonmatch"), (2, [0], "simplex"), (3, [0], "cart")]
    for fam in ("flow", "mae"):
        for dim, fr, grid in adgeoms:
            out.append({"cfg": _cfg(fam, dim, fr, grid, "comp", False, "adtpfa")})
    # history axis: the boundary condition TYPE changes between two time steps of one model
    hgeoms = [(2, [], "cart"), (2, [0], "cart"), (2, [0, 1], "cart")]
    if tier == "thorough":
        hgeoms += [(2, [0, 1], "nonmatch"), (2, [0], "simplex"), (3, [0], "cart")]
    for fam in ("flow", "mae"):
        for dim, fr, grid in hgeoms:
            for hist in ("open-closed", "closed-open"):
                out.append({"cfg": _cfg(fam, dim, fr, grid, "comp", bool(fr)), "history": hist})
    if tier == "thorough":
        for fam in ("flow", "mae"):
            out.append({"cfg": _cfg(fam, 3, [2], "well3d", "comp", True)})
        for fam in ("poro", "thm"):
            for dim, fr, grid in [(2, [0], "cart"), (2, [0, 1], "cart"), (3, [0], "cart")]:
                for laws in ("basic", "rich"):
                    out.append({"cfg": _cfg(fam, dim, fr, grid, "comp", laws == "rich", laws)})
    return out


def _closed_mixin():
    import porepy as pp

    class ClosedBoundaries:
        def _closed(self, sd):
            return pp.BoundaryCondition(sd, self.domain_boundary_sides(sd).all_bf, "neu")

        def bc_type_darcy_flux(self, sd):
            return self._closed(sd)

        def bc_type_fluid_flux(self, sd):
            return self._closed(sd)

        def bc_type_fourier_flux(self, sd):
            return self._closed(sd)

        def bc_type_enthalpy_flux(self, sd):
            return self._closed(sd)

    return ClosedBoundaries


def _ev(es, op, x):
    return np.atleast_1d(np.asarray(es.evaluate(op, False, x), dtype=float))


def _closed_form(model, cfg, x, quantity):
    """Total accumulated mass / internal energy of the pure flow models on plain numpy."""
    es = model.equation_system
    fluid, solid, _, ref = G.constants(cfg)
    nd = model.nd
    tot = 0.0
    for sd in model.mdg.subdomains():
        pv = [v for v in es.variables if v.name == "pressure" and v.domain is sd][0]
        p = x[es.dofs_of([pv])]
        tvs = [v for v in es.variables if v.name == "temperature" and v.domain is sd]
        T = x[es.dofs_of(tvs)] if tvs else None
        a = 1.0 if sd.dim == nd else float(solid.residual_aperture)
        vol = sd.cell_volumes * a ** (nd - sd.dim)
        phi = float(solid.porosity)
        rho = float(fluid.density) * np.exp(float(fluid.compressibility) * (p - float(ref.pressure)))
        if T is not None:
            rho = rho * np.exp(-float(fluid.thermal_expansion) * (T - float(ref.temperature)))
        if quantity == "mass":
            tot += float(np.sum(vol * phi * rho))
        else:
            dT = T - float(ref.temperature)
            e_f = (rho * float(fluid.specific_heat_capacity) * dT - p) * phi
            e_s = float(solid.density) * float(solid.specific_heat_capacity) * dT * (1.0 - phi)
            tot += float(np.sum(vol * (e_f + e_s)))
    return tot


def _quantities(model):
    names = set(model.equation_system.equations.keys()) if hasattr(model.equation_system, "equations") else set()
    q = [("mass", "mass_balance_equation")]
    if "energy_balance_equation" in names:
        q.append(("energy", "energy_balance_equation"))
    return q


def _operators(model, quantity):
    sds = model.mdg.subdomains()
    if quantity == "mass":
        return model.fluid_flux(sds), model.fluid_source(sds), model.fluid_mass(sds)
    acc = model.volume_integral(model.total_internal_energy(sds), sds, dim=1)
    return model.energy_flux(sds), model.energy_source(sds), acc


def _per_subdomain(model, divflux, src):
    out = []
    pos = 0
    for sd in model.mdg.subdomains():
        n = sd.num_cells
        out.append({"dim": int(sd.dim), "cells": int(n), "sum_div_flux": float(divflux[pos : pos + n].sum()),
                    "sum_source": float(src[pos : pos + n].sum())})
        pos += n
    return out


def _bucket(out, rel):
    b = "rel_le_1e-14" if rel <= 1e-14 else ("rel_le_1e-13" if rel <= 1e-13 else ("rel_le_1e-11" if rel <= 1e-11 else "rel_gt_1e-11"))
    out.extra[b] = out.extra.get(b, 0) + 1


def run_case(case) -> Outcome:
    import porepy as pp

    out = Outcome()
    cfg = case["cfg"]
    hist = case.get("history")
    if hist is not None:
        return _run_history(case, out)
    model = G.build(cfg, extra_mixins=(_closed_mixin(),), tag="closed")
    _closed_phase(out, model, cfg, tuple(G.STATE_LETTERS), ("stale", "fresh"), "")
    return out


def _closed_phase(out, model, cfg, letters, modes, htag):
    """Identities (i)-(iii) on a model whose boundaries are (now) closed."""
    import porepy as pp

    es = model.equation_system
    ck = G.cfg_key(cfg) + htag
    sds = model.mdg.subdomains()
    dt = float(cfg["dt"])
    div = pp.ad.Divergence(sds, dim=1)
    has_intf = len(model.mdg.interfaces()) > 0
    # closed form only where apertures are the constant residual aperture (no wells)
    pure_flow = cfg["fam"] in ("flow", "mae") and cfg["grid"] != "well3d"
    x_init = np.array(es.get_variable_values(iterate_index=0), dtype=float)
    hp = (htag + ":") if htag else ""
    for letter in letters:
        x0, xp = G.make_states(model, letter)
        for mode in modes:
            # 'stale': upwind matrices as discretized for the initial state
            es.set_variable_values(x_init, iterate_index=0)
            for i in model.time_step_indices:
                es.set_variable_values(xp, time_step_index=int(i))
            if mode == "stale":
                try:
                    model.update_derived_quantities()
                except ValueError as e:
                    if "positive definite" in str(e):
                        out.ev("skipped:inadmissible-state")
                        continue
                    raise
                for i in model.iterate_indices:
                    es.set_variable_values(x0, iterate_index=int(i))
            else:
                try:
                    G.install(model, x0, xp)
                except ValueError as e:
                    if "positive definite" in str(e):
                        out.ev("skipped:inadmissible-state")
                        continue
                    raise
            for quantity, eqname in _quantities(model):
                flux_op, src_op, acc_op = _operators(model, quantity)
                base = {"state": letter, "upwind": mode, "quantity": quantity}
                if htag:
                    base["history"] = htag
                try:
                    flux = _ev(es, flux_op, x0)
                    divflux = _ev(es, div @ flux_op, x0)
                    src = _ev(es, src_op, x0)
                    res = -np.asarray(es.assemble(evaluate_jacobian=False, equations=[eqname], state=x0), dtype=float)
                    a_now = _ev(es, acc_op, x0)
                    a_prev = _ev(es, acc_op, xp)
                except Exception as e:
                    out.violate("evaluating the balance terms raised", error=repr(e), **base)
                    out.ev("VIOLATION:raised")
                    continue
                if src.size == 1 and divflux.size > 1:
                    src = np.full(divflux.size, float(src[0]))
                # (i) cancellation of fluxes
                s1 = float(np.sum(divflux - src))
                scale1 = float(np.sum(np.abs(flux)) + np.sum(np.abs(src))) + 1e-300
                coupled = bool(np.sum(np.abs(src)) > 1e-8) if has_intf else bool(np.sum(np.abs(flux)) > 1e-8)
                key = (ck, letter, mode, quantity, "i") if coupled else None
                _bucket(out, abs(s1) / max(scale1, 1.0))
                if abs(s1) <= TOL * max(scale1, 1.0):
                    out.ev(f"{hp}{quantity}:(i):{'interfaces' if has_intf else 'single-domain'}:{mode}", key)
                else:
                    out.violate("fluxes do not cancel: sum(div flux - source) != 0", total=s1, scale=scale1,
                                per_subdomain=_per_subdomain(model, divflux, src), **base)
                    out.ev(f"VIOLATION:{hp}{quantity}:(i)", key)
                # (ii) residual sum = rate of change of the accumulation
                rate = (float(np.sum(a_now)) - float(np.sum(a_prev))) / dt
                s2 = float(np.sum(res))
                scale2 = (float(np.sum(np.abs(a_now))) + float(np.sum(np.abs(a_prev)))) / dt + scale1
                changes = abs(rate) > 1e-8 * scale2
                key = (ck, letter, mode, quantity, "ii") if (coupled and changes) else None
                _bucket(out, abs(s2 - rate) / max(scale2, 1.0))
                if abs(s2 - rate) <= TOL * max(scale2, 1.0):
                    out.ev(f"{hp}{quantity}:(ii):{'changing' if changes else 'steady'}:{mode}", key)
                else:
                    out.violate("sum of balance residuals != rate of change of the accumulated quantity",
                                residual_sum=s2, rate_of_change=rate, scale=scale2,
                                sum_div_flux_minus_source=s1, **base)
                    out.ev(f"VIOLATION:{hp}{quantity}:(ii)", key)
                # (iii) closed-form accumulation (pure flow models)
                if pure_flow:
                    c_now, c_prev = _closed_form(model, cfg, x0, quantity), _closed_form(model, cfg, xp, quantity)
                    sc = float(np.sum(np.abs(a_now))) + float(np.sum(np.abs(a_prev))) + 1.0
                    d3 = max(abs(c_now - float(np.sum(a_now))), abs(c_prev - float(np.sum(a_prev))))
                    rate_c = (c_now - c_prev) / dt
                    key = (ck, letter, mode, quantity, "iii") if changes else None
                    if d3 <= 1e-11 * sc and abs(s2 - rate_c) <= 1e-10 * max(scale2, 1.0):
                        out.ev(f"{hp}{quantity}:(iii):closed-form", key)
                    else:
                        out.violate("accumulated quantity differs from its closed form / residual sum differs "
                                    "from the closed-form rate", closed_form_now=c_now, model_now=float(np.sum(a_now)),
                                    closed_form_prev=c_prev, model_prev=float(np.sum(a_prev)), residual_sum=s2,
                                    closed_form_rate=rate_c, **base)
                        out.ev(f"VIOLATION:{hp}{quantity}:(iii)", key)
                if len(out.samples) < 1 and coupled and letter == "lin-1" and mode == "fresh":
                    out.samples.append({"cfg": cfg, **base, "sum_div_flux_minus_source": s1, "sum_abs_terms": scale1,
                                        "residual_sum": s2, "rate_of_change": rate})


# ------------------------------------------------------------------- history axis


def _switchable_mixin():
    """Boundaries that are open (Dirichlet with non-trivial data on the west and east
    sides) or closed (homogeneous Neumann everywhere) depending on a flag that the harness
    flips between time steps; Darcy and Fourier flux discretizations are registered with
    the shipped hooks for re-discretization in every update of the derived quantities."""
    import porepy as pp

    class SwitchableBoundaries:
        def _bc(self, sd):
            sides = self.domain_boundary_sides(sd)
            if self.params.get("grpd_closed", False):
                return pp.BoundaryCondition(sd, sides.all_bf, "neu")
            return pp.BoundaryCondition(sd, sides.west + sides.east, "dir")

        def bc_type_darcy_flux(self, sd):
            return self._bc(sd)

        def bc_type_fluid_flux(self, sd):
            return self._bc(sd)

        def bc_type_fourier_flux(self, sd):
            return self._bc(sd)

        def bc_type_enthalpy_flux(self, sd):
            return self._bc(sd)

        def bc_values_pressure(self, bg):
            vals = self.reference_variable_values.pressure * np.ones(bg.num_cells)
            sides = self.domain_boundary_sides(bg)
            vals[sides.west] += 1.0
            vals[sides.east] -= 0.3
            return vals

        def bc_values_temperature(self, bg):
            vals = self.reference_variable_values.temperature * np.ones(bg.num_cells)
            sides = self.domain_boundary_sides(bg)
            vals[sides.west] += 0.5
            vals[sides.east] -= 0.2
            return vals

        def add_nonlinear_darcy_flux_discretization(self):
            self.add_nonlinear_diffusive_flux_discretization(
                self.darcy_flux_discretization(self.mdg.subdomains()).flux()
            )

        def add_nonlinear_fourier_flux_discretization(self):
            self.add_nonlinear_diffusive_flux_discretization(
                self.fourier_flux_discretization(self.mdg.subdomains()).flux()
            )

    return SwitchableBoundaries


def _boundary_outflow(model, flux):
    """Net flux leaving through the external boundary faces, from the face fluxes."""
    tot, absum, pos = 0.0, 0.0, 0
    for sd in model.mdg.subdomains():
        nf = sd.num_faces
        if nf:
            sgn = np.asarray(sd.cell_faces.sum(axis=1)).ravel()
            bnd = sd.tags["domain_boundary_faces"]
            f = flux[pos : pos + nf]
            tot += float(np.sum(sgn[bnd] * f[bnd]))
            absum += float(np.sum(np.abs(f[bnd])))
        pos += nf
    return tot, absum


def _open_phase(out, model, cfg, letters, htag):
    """Control with open boundaries: the cell sums equal the net flux through the external
    boundary (divergence theorem of the discretization), and that flux is not zero."""
    import porepy as pp

    es = model.equation_system
    ck = G.cfg_key(cfg) + htag
    sds = model.mdg.subdomains()
    div = pp.ad.Divergence(sds, dim=1)
    for letter in letters:
        x0, xp = G.make_states(model, letter)
        G.install(model, x0, xp)
        for quantity, _ in _quantities(model):
            flux_op, src_op, _acc = _operators(model, quantity)
            flux = _ev(es, flux_op, x0)
            divflux = _ev(es, div @ flux_op, x0)
            src = _ev(es, src_op, x0)
            if src.size == 1 and divflux.size > 1:
                src = np.full(divflux.size, float(src[0]))
            outflow, absum = _boundary_outflow(model, flux)
            s1 = float(np.sum(divflux - src))
            scale = float(np.sum(np.abs(flux)) + np.sum(np.abs(src))) + 1.0
            through = absum > 1e-6 * scale
            key = (ck, letter, quantity, "open") if through else None
            if abs(s1 - outflow) <= TOL * scale:
                out.ev(f"{htag}:{quantity}:open:{'boundary-flux' if through else 'no-boundary-flux'}", key)
            else:
                out.violate("open boundaries: sum(div flux - source) != net flux through the external boundary",
                            total=s1, boundary_outflow=outflow, scale=scale, state=letter, quantity=quantity, history=htag)
                out.ev(f"VIOLATION:{htag}:{quantity}:open", key)


def _run_history(case, out):
    """One model object through a change of the boundary condition TYPE between two time
    steps, following the shipped per-step update path (before_nonlinear_loop)."""
    cfg, hist = case["cfg"], case["history"]
    model = G.build(cfg, extra_mixins=(_switchable_mixin(),), tag="hist:" + hist, cache=False,
                    extra_params={"grpd_closed": hist == "closed-open"})
    letters = ("lin-1", "wave-0.3")
    es = model.equation_system

    def step(closed):
        # what run_time_dependent_model does at the start of a time step
        model.params["grpd_closed"] = closed
        model.before_nonlinear_loop()
        model.before_nonlinear_iteration()

    if hist == "open-closed":
        # step 1 with open boundaries (set up and discretized open), assembled once
        step(False)
        x0, xp = G.make_states(model, "wave-1")
        G.install(model, x0, xp)
        model.assemble_linear_system()
        _open_phase(out, model, cfg, ("wave-1",), hist + "/open")
        # from step 2 on the boundaries are closed
        step(True)
        _closed_phase(out, model, cfg, letters, ("fresh",), hist + "/closed")
    elif hist == "closed-open":
        step(True)
        _closed_phase(out, model, cfg, letters, ("fresh",), hist + "/closed")
        step(False)
        _open_phase(out, model, cfg, letters, hist + "/open")
    else:
        raise ValueError(hist)
    return out


def known_finding(case, viol):
    cfg = case.get("cfg", {})
    d = viol.get("detail", viol) if isinstance(viol, dict) else {}
    if (cfg.get("laws") == "adtpfa" and cfg.get("fam") in ("mae", "thm") and cfg.get("fracs")
            and d.get("quantity") == "energy"):
        return "C04-fouriers-law-ad-internal-boundary"
    return None
