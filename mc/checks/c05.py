"""C05 — the degree-of-freedom layout is a bijection under any variable history.

Engine H: explicit-state BFS over histories of ``create_variables`` / ``remove_variables``
on a real ``EquationSystem`` (fresh per history, rebuilt by replay) with the plain-Python
registry model of ``mc.oracles.grpB_dofmodel`` stepped alongside.

In every reached state: ``num_dofs``; ``dofs_of`` of every atomic variable, every ordered
pair, every name and every md-variable; ``identify_dof`` of every index and of -1 and
``num_dofs``; ``projection_to`` and set/get round trips (overwrite and additive, time-step
and iterate storage) for every subset of the variable groups (name x {subdomains,
interfaces}) with the untouched complement verified, and the stored values read back
directly from the grid data dictionaries.
"""

from __future__ import annotations

import itertools

import numpy as np

from mc.core import Abort, Outcome, bfs, jsonable
from mc.oracles import grpB_dofmodel as dm

PROPERTY = "C05"
LEVEL = "model_checking"
RULE = (
    "BFS over all histories of create(name in a/b/c, domain in {all subdomains, [top], [second], "
    "[second, top], all interfaces, [first interface]}) / remove(name) / remove(atomic variable) / "
    "remove([two creation-adjacent atomic variables], both orders) on md-grids G1 (2 subdomains, 1 "
    "interface) and G2 (4 subdomains incl. a 0-d one, 4 interfaces); dof type tied to the name by a "
    "dof map (cells / faces / nodes+cells, multiplicities 1-3, all block sizes on one grid distinct, "
    "zero-size blocks on the 0-d grid); one case = (grid, dof map, first two operations); rejected "
    "duplicate creations are verified (KeyError) and not continued; non-trivial = a state with >= 2 "
    "live atomic variables whose demanded block order differs from creation order or that was "
    "reached through a removal; distinct by (grid, dof map, live variables in creation order); "
    "observation is an operation of its own: histories are replayed without any layout look-up "
    "between the mutations, and every history of length <= obs_len (G1: 4, G2: 3) is additionally "
    "replayed with exactly one full observation after j = 0..n-1 operations followed by unobserved "
    "mutations (stale caches between look-ups)"
)
ASSUMPTIONS = [
    "canonical state = live atomic variables (name, grid rank) in creation order; the registry's "
    "private fields are recomputed from exactly these; merged histories are compared on the full "
    "dofs_of read-out",
    "face/node dofs are only requested on subdomains (interfaces get cell dofs)",
    "the heavy part of the per-state check (subset projections and round trips) is executed once "
    "per abstract state and case; every other arrival at the state is checked on num_dofs, "
    "dofs_of of every variable and identify_dof of every index",
    "round-trip form assignment per subset: overwrite/time via atomic list (reverse creation "
    "order), additive/time via md-variables, overwrite/iterate via names where expressible, "
    "additive/iterate via atomic list",
]
BOUNDS = {
    "quick": "G1: histories of length <= 4, dof map M1; G2: length <= 3, dof map M1",
    "thorough": "G1: length <= 5, dof maps M1 and M2; G2: length <= 4, dof maps M1 and M2",
}
MIN_CLASSES = 4
CHUNK = 2


def cases(tier):
    plan = {
        "quick": [("G1", "M1", 4), ("G2", "M1", 3)],
        "thorough": [("G1", "M1", 5), ("G1", "M2", 5), ("G2", "M1", 4), ("G2", "M2", 4)],
    }[tier]
    out = []
    for grid, dofmap, depth in plan:
        seen_first = set()
        for pre in dm.enumerate_prefixes(grid, 2):
            first = repr(pre[0])
            out.append({"grid": grid, "dofmap": dofmap, "prefix": pre, "depth": depth,
                        "obs_len": {"G1": 4, "G2": 3}[grid], "check_parent": first not in seen_first})
            seen_first.add(first)
    return out


# --------------------------------------------------------------------------- state


class State:
    def __init__(self, grid, dofmap):
        self.model = dm.Model(grid)
        self.sys = dm.Sys(grid, dofmap)
        self.hist: list = []
        self.problems: list = []
        self.removed = False
        self.abort = None

    def bad(self, what, **kw):
        self.problems.append(dict(what=what, history=list(self.hist), **kw))

    def step(self, op):
        self.hist.append(op)
        m2 = self.model.copy()
        verdict = m2.apply(op)
        exc = self.sys.apply(op)
        if verdict == "duplicate":
            if not isinstance(exc, KeyError):
                self.bad("creating a variable that already exists on one of the grids was not rejected with KeyError",
                         got=repr(exc))
            self.abort = "duplicate-create"
            # the rejected call must leave the registry untouched
            self.light_check()
            return
        if exc is not None:
            self.bad("operation raised", op=op, error=repr(exc))
            return
        self.model = m2
        if op[0] != "create":
            self.removed = True

    # ---- checks

    def blocks(self):
        return self.model.blocks(self.sys.size_of)

    def light_check(self):
        es, live = self.sys.es, self.sys.live
        if len(live) != len(self.model.live):
            self.bad("harness: live list out of sync")
            return None
        blocks = self.blocks()
        n = sum(e - s for s, e in blocks)
        try:
            if es.num_dofs() != n:
                self.bad("num_dofs differs", expected=n, got=es.num_dofs())
                return None
            for v, (s, e) in zip(live, blocks):
                got = es.dofs_of([v])
                if not np.array_equal(got, np.arange(s, e)):
                    self.bad("dofs_of(atomic variable) is not the demanded contiguous block",
                             variable=[v.name, self.sys.rank_of(v)], expected=[s, e], got=got,
                             live=self.model.live)
                    return None
            owner = np.full(n, -1)
            for k, (s, e) in enumerate(blocks):
                owner[s:e] = k
            for i in range(n):
                got = es.identify_dof(i)
                if got is not live[owner[i]]:
                    self.bad("identify_dof returns the wrong variable", index=i,
                             expected=list(self.model.live[owner[i]]),
                             got=[got.name, self.sys.rank_of(got)], live=self.model.live, blocks=blocks)
                    return None
            for i in (-1, n):
                try:
                    got = es.identify_dof(i)
                    self.bad("identify_dof accepted an out-of-range index", index=i, num_dofs=n,
                             got=[got.name, self.sys.rank_of(got)])
                    return None
                except KeyError:
                    pass
            if live:
                P = es.projection_to(list(live))
                if P.shape != (n, n) or P.nnz != n:
                    self.bad("projection_to(all variables) is not a permutation-free identity of size num_dofs",
                             got_shape=list(P.shape), num_dofs=n)
                    return None
            if [id(v) for v in es.variables] != [id(v) for v in live]:
                self.bad("EquationSystem.variables is not the list of live variables in creation order")
                return None
        except Exception as e:  # noqa
            self.bad("layout query raised", error=repr(e), live=self.model.live)
            return None
        return blocks, n

    def groups(self):
        """Variable groups: (name, kind) -> list of indices into live (creation order)."""
        g: dict = {}
        for k, (name, r) in enumerate(self.model.live):
            g.setdefault((name, "sd" if r < self.sys.nsd else "intf"), []).append(k)
        return g

    def heavy_check(self, blocks, n):
        pp, es, live, sys_ = self.sys.pp, self.sys.es, self.sys.live, self.sys
        mlive = self.model.live
        try:
            # ordered pairs
            for i, j in itertools.permutations(range(len(live)), 2):
                got = es.dofs_of([live[i], live[j]])
                exp = np.concatenate([np.arange(*blocks[i]), np.arange(*blocks[j])])
                if not np.array_equal(got, exp):
                    self.bad("dofs_of(ordered pair) is not the concatenation of the two blocks",
                             pair=[list(mlive[i]), list(mlive[j])], expected=exp, got=got)
                    return
            groups = self.groups()
            gkeys = list(groups)
            # by name and by md-variable
            for name in sorted({nm for nm, _ in mlive}):
                exp = np.sort(np.concatenate([np.arange(*blocks[k]) for k in range(len(live)) if mlive[k][0] == name]))
                got = np.sort(es.dofs_of([name]))
                if not np.array_equal(got, exp):
                    self.bad("dofs_of(name) is not the union of the blocks of that name", name=name, expected=exp, got=got)
                    return
            mdvars = {}
            for (name, kind), ks in groups.items():
                doms = [live[k].domain for k in ks]
                mv = es.md_variable(name, doms)
                mdvars[(name, kind)] = mv
                exp = np.sort(np.concatenate([np.arange(*blocks[k]) for k in ks]))
                got = np.sort(es.dofs_of([mv]))
                if not np.array_equal(got, exp):
                    self.bad("dofs_of(md-variable) is not the union of its blocks", name=name, kind=kind, expected=exp, got=got)
                    return

            def forms(sub):
                ks = [k for key in sub for k in groups[key]]
                atomic = [live[k] for k in sorted(ks, reverse=True)]
                md = [mdvars[key] for key in sub]
                names = sorted({key[0] for key in sub})
                expressible = all(((nm, kd) in sub) for nm in names for kd in ("sd", "intf") if (nm, kd) in groups)
                return ks, atomic, md, (names if expressible else md)

            # base values everywhere, both storages at once
            base = -(np.arange(n) + 1.0)
            es.set_variable_values(base.copy(), None, time_step_index=0, iterate_index=0)
            ref = {"T": base.copy(), "I": base.copy()}
            kw = {"T": {"time_step_index": 0}, "I": {"iterate_index": 0}}
            stamp = 0
            for rsize in range(0, len(gkeys) + 1):
                for sub in itertools.combinations(gkeys, rsize):
                    ks, f_atomic, f_md, f_names = forms(sub)
                    idx = np.sort(np.concatenate([np.arange(*blocks[k]) for k in ks] + [np.array([], dtype=int)])).astype(int)
                    # projections
                    for fname, f in (("atomic", f_atomic), ("md", f_md), ("names", f_names)):
                        P = es.projection_to(f)
                        E = np.zeros((idx.size, n))
                        E[np.arange(idx.size), idx] = 1.0
                        if P.shape != E.shape or not np.array_equal(P.toarray(), E):
                            self.bad("projection_to does not select exactly the sorted indices of the subset",
                                     subset=[list(s) for s in sub], form=fname, expected_indices=idx,
                                     got_shape=list(P.shape), got_indices=P.tocsr().indices)
                            return
                    # round trips
                    for loc, additive, fname, f in (("T", False, "atomic", f_atomic), ("T", True, "md", f_md),
                                                    ("I", False, "names", f_names), ("I", True, "atomic", f_atomic)):
                        stamp += 1
                        vals = 1000.0 * stamp + idx + 1.0
                        arg = vals.copy()
                        es.set_variable_values(arg, f, additive=additive, **kw[loc])
                        if not np.array_equal(arg, vals):
                            self.bad("set_variable_values modified its argument", subset=[list(s) for s in sub])
                            return
                        arg[:] = -777.0
                        if additive:
                            ref[loc][idx] += vals
                        else:
                            ref[loc][idx] = vals
                        got = es.get_variable_values(f, **kw[loc])
                        if not np.array_equal(got, ref[loc][idx]):
                            self.bad("set then get of a variable subset does not return the written values",
                                     subset=[list(s) for s in sub], form=fname, storage=loc, additive=additive,
                                     expected=ref[loc][idx], got=got, live=mlive)
                            return
                    for loc in ("T", "I"):
                        got = es.get_variable_values(None, **kw[loc])
                        if not np.array_equal(got, ref[loc]):
                            self.bad("writing a variable subset changed values outside the subset (or misplaced them)",
                                     subset=[list(s) for s in sub], storage=loc, expected=ref[loc], got=got, live=mlive)
                            return
            # read the storage directly, bypassing the EquationSystem
            for k, v in enumerate(live):
                r = sys_.rank_of(v)
                data = sys_.mdg.subdomain_data(v.domain) if r < sys_.nsd else sys_.mdg.interface_data(v.domain)
                for loc in ("T", "I"):
                    got = pp.get_solution_values(v.name, data, **kw[loc])
                    exp = ref[loc][blocks[k][0]:blocks[k][1]]
                    if not np.array_equal(got, exp):
                        self.bad("values written in global order did not arrive in the storage of the owning variable",
                                 variable=list(mlive[k]), storage=loc, expected=exp, got=got, live=mlive)
                        return
            # recounting the dofs on an unchanged grid must not change the layout
            es.update_variable_num_dofs()
            if es.num_dofs() != n or any(not np.array_equal(es.dofs_of([v]), np.arange(*blocks[k])) for k, v in enumerate(live)):
                self.bad("update_variable_num_dofs on an unchanged md-grid changed the layout", live=mlive)
                return
            # empty requests
            if es.projection_to(None).shape != (0, n) or es.projection_to([]).shape != (0, n):
                self.bad("projection_to(no variables) is not the empty projection")
        except Exception as e:  # noqa
            self.bad("projection / value round trip raised", error=repr(e), live=mlive)


def run_case(case) -> Outcome:
    out = Outcome()
    grid, dofmap = case["grid"], case["dofmap"]
    prefix = [list(o) for o in case["prefix"]]
    heavy_done: set = set()

    def build_full(ops, observe_at=None):
        """Replays ``ops`` on a fresh system WITHOUT any layout look-up in between, except
        for one full observation (``light_check``) after ``observe_at`` operations."""
        st = State(grid, dofmap)
        for k, op in enumerate(ops):
            if observe_at == k:
                st.light_check()
                if st.problems:
                    break
            st.step(op)
            if st.abort or st.problems:
                break
        return st

    def build(hist):
        st = build_full(prefix + [list(o) for o in hist])
        if st.abort and not st.problems:
            return Abort(st.abort)
        return st

    def enabled(st, hist):
        return [tuple(o) for o in st.model.enabled()]

    def canon(st):
        return st.model.canon()

    def observe(st):
        es = st.sys.es
        return (es.num_dofs(),) + tuple(tuple(int(x) for x in es.dofs_of([v])) for v in st.sys.live)

    def check(st, hist, o: Outcome):
        if not st.problems:
            lc = st.light_check()
            if lc is not None and st.model.canon() not in heavy_done:
                heavy_done.add(st.model.canon())
                st.heavy_check(*lc)
                o.extra["heavy_checks"] = o.extra.get("heavy_checks", 0) + 1
        # observation as an explicit operation: the same history with ONE intermediate
        # observation after j operations (j = 0..n-1) and silent mutations afterwards
        if not st.problems and not st.abort and 0 < len(st.hist) <= case.get("obs_len", 0):
            for j in range(len(st.hist)):
                st2 = build_full(st.hist, observe_at=j)
                if not st2.problems:
                    st2.light_check()
                o.extra["observed_variants"] = o.extra.get("observed_variants", 0) + 1
                if st2.problems:
                    p = dict(st2.problems[0])
                    p["what"] = p["what"] + " [after an intermediate layout look-up followed by unobserved mutations]"
                    p["observed_after_ops"] = j
                    p["history"] = list(st.hist)
                    st.problems.append(p)
                    break
        if st.problems:
            p = st.problems[0]
            o.violate(p["what"], grid=grid, dofmap=dofmap, **{k: v for k, v in p.items() if k != "what"})
            o.ev("VIOLATION")
            return
        live = st.model.live
        order = sorted(range(len(live)), key=lambda k: (live[k][1], k))
        permuted = order != list(range(len(live)))
        nontrivial = len(live) >= 2 and (permuted or st.removed)
        key = (grid, dofmap, tuple(live)) if nontrivial else None
        kinds = {("sd" if r < st.sys.nsd else "intf") for _, r in live}
        last = st.hist[-1][0] if st.hist else "root"
        zero = any(e == s for s, e in st.blocks())
        cls = "%s/n%d/%s%s%s%s" % (last, min(len(live), 6), "+".join(sorted(kinds)) or "empty",
                                   "/permuted" if permuted else "", "/after-removal" if st.removed else "",
                                   "/zero-block" if zero else "")
        o.ev(cls, key)
        if nontrivial and permuted and st.removed and len(o.samples) < 1:
            o.samples.append(jsonable({"grid": grid, "dofmap": dofmap, "history": st.hist, "live": live,
                                       "blocks": st.blocks()}))

    if case.get("check_parent") and len(prefix) > 1:
        stp = build_full(prefix[:1])
        check(stp, (), out)
        out.states += 1
        if out.violations:
            return out
    s0 = build(())
    if isinstance(s0, Abort):
        out.ev("rejected:" + s0.why)
        out.transitions += 1
        return out
    bfs(build=build, enabled=enabled, canon=canon, check=check, observe=observe,
        max_depth=case["depth"] - len(prefix), out=out, label=f"C05 {grid} {dofmap} {prefix}")
    return out


def known_finding(case, viol):
    return None
