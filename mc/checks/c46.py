"""C46 — SparseNdArray behaves like a dictionary of coordinates.

Engine H: explicit-state BFS over histories of ``add`` operations on the real
``SparseNdArray``; a plain Python dict is stepped alongside. In every state every
coordinate of the alphabet is read (single reads, and one batch read in two orders).
"""

from __future__ import annotations

import itertools

import numpy as np

from mc.core import Abort, Outcome, bfs

PROPERTY = "C46"
LEVEL = "model_checking"
RULE = (
    "BFS over all histories of add(batch, additive) with batches of 1-3 coordinates (value dtype axis: float throughout, or integer first batch then fractional values) "
    "(all orderings, duplicates allowed; first operation also batches of 4) from a fixed coordinate alphabet, values fresh integers; one "
    "case = (dim, value_dim, first operation); non-trivial = a state in which some "
    "coordinate was written at least twice (across or inside batches) and the storage "
    "order differs from lexicographic order or a duplicate occurred; distinct by "
    "(config, storage order, values)"
)
ASSUMPTIONS = [
    "coordinates are small non-negative integers; values are integers (exact in float64)",
    "state abstraction = (storage order of coordinates, stored values): private fields "
    "_coords/_values are read only to de-duplicate and to check the returned permutation",
]
BOUNDS = {
    "quick": "batches of 1-3 (first op up to 4) to depth 2 in dim 1 and 2; batches of 1-2 to depth 3 in dim 1; value_dim 1 and 2",
    "thorough": "batches of 1-3 to depth 3 (value_dim 1) / 2 (value_dim 2); batches of 1-2 to depth 4 (dim 1) / 3 (dim 2, value_dim 1)",
}

ALPHA = {
    1: [(0,), (1,), (2,)],
    # chosen so that insertion order, lexicographic order and kd-tree order all differ
    2: [(0, 1), (1, 0), (2, 1), (0, 0)],
}


def _ops(dim):
    cs = ALPHA[dim]
    batches = [(c,) for c in cs] + [(a, b) for a in cs for b in cs]
    # batches of three: every ordering of three distinct coordinates (the sorting
    # permutation of a batch is an involution for sizes 1 and 2, but not for size 3) and
    # every batch of three with one repeated coordinate
    batches += [t for t in itertools.permutations(cs, 3)]
    batches += [(a, b, c) for a in cs for b in cs for c in cs if len({a, b, c}) == 2]
    return [(b, add) for b in batches for add in (False, True)]


def _ops_first(dim):
    """First operations (one case each): the full alphabet plus batches of four."""
    cs = ALPHA[dim]
    four = [t for t in itertools.permutations(cs, 4)] if len(cs) >= 4 else []
    # batches of four with at least one repeated coordinate, every arrangement (the last
    # occurrence must win in overwrite mode whatever the sort used internally)
    four += [t for t in itertools.product(cs[:3], repeat=4) if len(set(t)) < 4]
    # one long batch per starting coordinate (sorting networks change above 16 entries)
    four += [tuple(cs[(i + 7 * k) % len(cs)] for k in range(19)) for i in range(len(cs))]
    return _ops(dim) + [(b, add) for b in four for add in (False, True)]


def _ops_small(dim):
    cs = ALPHA[dim]
    batches = [(c,) for c in cs] + [(a, b) for a in cs for b in cs]
    return [(b, add) for b in batches for add in (False, True)]


def cases(tier):
    """One case = (dim, value_dim, first operation, alphabet, depth). The full alphabet
    (batches of 1-3) is searched to depth 2 (quick) / 3 (thorough); the small alphabet
    (batches of 1-2) one level deeper."""
    out = []
    for dim in (1, 2):
        for vdim in (1, 2):
            if tier == "quick":
                d_full, d_small = 2, {1: 3, 2: 0}[dim]
            else:
                d_full = 3 if vdim == 1 else 2
                d_small = {1: 4, 2: 3 if vdim == 1 else 0}[dim]
            for op in _ops_first(dim):
                out.append({"dim": dim, "vdim": vdim, "first": [list(map(list, op[0])), op[1]], "depth": d_full, "alpha": "full"})
            if d_small:
                for op in _ops_small(dim):
                    out.append({"dim": dim, "vdim": vdim, "first": [list(map(list, op[0])), op[1]], "depth": d_small, "alpha": "small"})
            # value dtype axis: integer first batch, fractional values afterwards
            for op in _ops_small(dim):
                out.append({"dim": dim, "vdim": vdim, "first": [list(map(list, op[0])), op[1]],
                            "depth": 2 if tier == "quick" else 3, "alpha": "small", "vmode": "intfirst"})
    return out


def _values(t, batch, vdim, vmode="float"):
    # fresh integers identifying (history position, batch position, component)
    v = np.array([[100.0 * (t + 1) + 10 * j + c + 1 for j in range(len(batch))] for c in range(vdim)])
    if vmode == "intfirst":
        # the first batch is handed over as an INTEGER array, later values have a fractional
        # part (exact in binary): the storage must not inherit the dtype of the first values
        return v.astype(np.int64) if t == 0 else v + 0.25
    return v


def _apply(hist, dim, vdim, vmode="float"):
    from porepy.utils.array_operations import SparseNdArray

    arr = SparseNdArray(dim, value_dim=vdim)
    ref: dict = {}
    dup = False
    perm_ok = True
    for t, (batch, additive) in enumerate(hist):
        vals = _values(t, batch, vdim, vmode)
        coords = [np.array(c) for c in batch]
        n_before = arr._coords.shape[1]
        newly = [c for c in dict.fromkeys(batch) if c not in ref]
        if len(set(batch)) < len(batch) or any(c in ref for c in batch):
            dup = True
        for j, c in enumerate(batch):
            if additive:
                ref[c] = ref.get(c, np.zeros(vdim)) + vals[:, j]
            else:
                ref[c] = vals[:, j].copy()
        perm = arr.add(coords, vals if vdim > 1 else vals[0], additive=additive)
        # returned permutation: indices into the batch of the newly stored coordinates
        stored_new = [tuple(int(x) for x in arr._coords[:, k]) for k in range(n_before, arr._coords.shape[1])]
        perm = np.asarray(perm).ravel()
        if len(perm) != len(stored_new) or sorted(stored_new) != sorted(newly):
            perm_ok = False
        elif any(tuple(batch[int(p)]) != s for p, s in zip(perm, stored_new)):
            perm_ok = False
    return arr, ref, dup, perm_ok


def run_case(case) -> Outcome:
    out = Outcome()
    dim, vdim = case["dim"], case["vdim"]
    first = (tuple(tuple(c) for c in case["first"][0]), bool(case["first"][1]))
    ops = _ops_small(dim) if case.get("alpha") == "small" else _ops(dim)
    alpha = ALPHA[dim]

    def build(hist):
        h = (first,) + tuple(hist)
        try:
            return _apply(h, dim, vdim, case.get("vmode", "float")) + (h,)
        except Exception as e:  # an exception from add on valid input is a violation
            return ("exc", repr(e), h)

    def enabled(st, hist):
        return ops

    def canon(st):
        arr = st[0]
        return (arr._coords.tobytes(), arr._coords.shape, arr._values.tobytes())

    def observe(st):
        arr, ref = st[0], st[1]
        return tuple(sorted((c, tuple(v)) for c, v in ref.items()))

    def check(st, hist, o: Outcome):
        if st[0] == "exc":
            o.violate("add raised on valid input", error=st[1], history=st[2])
            o.ev("exception")
            return
        arr, ref, dup, perm_ok, h = st
        stored = [tuple(int(x) for x in arr._coords[:, k]) for k in range(arr._coords.shape[1])]
        nontrivial = dup and (stored != sorted(stored) or len(h) > 1)
        key = (dim, vdim, case.get("vmode", "float"), tuple(stored), arr._values.tobytes()) if nontrivial else None
        bad = None
        for c in alpha:
            try:
                got = arr.get([np.array(c)])
                if c not in ref:
                    bad = ("get of never-inserted coordinate returned a value", c, got)
                    break
                if got.shape != (vdim, 1) or not np.array_equal(got[:, 0], ref[c]):
                    bad = ("get differs from dictionary", c, got[:, 0], ref[c])
                    break
            except ValueError as e:
                if c in ref:
                    bad = ("get raised for an inserted coordinate", c, repr(e))
                    break
            except Exception as e:
                bad = ("get raised unexpected error", c, repr(e))
                break
        if bad is None and ref:
            present = [c for c in alpha if c in ref]
            for order in (present, present[::-1]):
                got = arr.get([np.array(c) for c in order])
                exp = np.array([ref[c] for c in order]).T
                if got.shape != exp.shape or not np.array_equal(got, exp):
                    bad = ("batch get differs from dictionary", order, got, exp)
                    break
        if bad is None and len(set(stored)) != len(stored):
            bad = ("duplicate coordinate in storage", stored)
        if bad is None and not perm_ok:
            bad = ("returned permutation inconsistent with stored coordinates", stored)
        cls = ("dup" if dup else "nodup") + ("/add" if h[-1][1] else "/ovw") + f"/n{len(ref)}" + ("/intfirst" if case.get("vmode") == "intfirst" else "")
        if bad is not None:
            o.violate(bad[0], detail=bad[1:], history=h, dim=dim, vdim=vdim)
            cls = "VIOLATION"
        o.ev(cls, key)
        if len(o.samples) < 1 and len(h) >= 2 and dup:
            o.samples.append({"dim": dim, "vdim": vdim, "history": [[list(map(list, b)), a] for b, a in h],
                              "dict": {str(k): list(map(float, v)) for k, v in ref.items()}})

    bfs(build=build, enabled=enabled, canon=canon, check=check, observe=observe,
        max_depth=case["depth"] - 1, out=out, label=f"C46 dim={dim} vdim={vdim}")
    return out


def known_finding(case, viol):
    return None
