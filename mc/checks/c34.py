"""C34 — point-set uniquification and set membership are correct.

Engine E. Three families of cases, each exhaustive within its declared bound:

``uniq``      clustered point sets for ``uniquify_point_set``: 1-3 clusters, each on its
              own ray (or at the origin) with centre norm 1 + s*tol, every member =
              centre + {0, +delta, -delta} * e_k with delta = 0.05 tol; every word (point
              sequence) of length <= N that uses every cluster at least once, i.e. every
              interleaving of the clusters and every offset choice.
``uniq_int``  every word over the integer lattice {0..m}^d (as float64 columns).
``ismember``  ``ismember_columns`` on every ordered pair of integer column sequences.
``intersect`` ``intersect_sets`` on every pair (a on the integer lattice, b on the lattice
              with perturbations 0 / 0.5 tol / 2 tol), three tolerances.

Oracles: the expected representatives / index maps follow from the cluster labels of the
word alone (first occurrence per label); that labels = "closer than tol" classes is
verified per case with exact rational arithmetic on the actual float coordinates
(same cluster: distance <= 0.11 tol, different clusters: distance >= 0.5). Membership
and intersection are decided by exhaustive comparison (exact integers resp. exact
rational distances).
"""

from __future__ import annotations

import functools
import itertools

import numpy as np

from mc.core import Outcome, jsonable
from mc.oracles import grpJ_exact as X

PROPERTY = "C34"
LEVEL = "exploration"
RULE = (
    "uniquify_point_set: for every configuration of 1-3 far-apart clusters (distinct rays, "
    "centre norms 1+s*tol) and every offset axis, every point sequence up to the length "
    "bound using all clusters (all interleavings x all offsets 0/+-0.05tol); plus every "
    "word over a small integer lattice. ismember_columns / intersect_sets: every ordered "
    "pair of column sequences up to the size bound, sort in {T,F}, three tolerances. "
    "Non-trivial = at least two clusters and at least one cluster with >= 2 members "
    "(resp. at least one member and one non-member column); distinct by (dimension, tol, "
    "cluster configuration, cluster-label word) resp. (a, b)."
)
ASSUMPTIONS = [
    "clusters are well separated: same-cluster distance <= 0.11 tol, different clusters >= 0.5 "
    "(verified exactly per case); tol in {1e-3, 1e-6} (integer lattice: {1e-3, 0.1})",
    "points are passed as C-contiguous float64 arrays of shape (d, n); n = 0 included",
    "ismember_columns: only validity of the returned indices is demanded (b[:, ia] equals the "
    "member columns of a), not which of several equal columns of b is chosen",
    "intersect_sets: inner lists are compared as sets; all distances are 0, 0.5 tol, 2 tol or >= 4 tol",
]
BOUNDS = {
    "quick": "uniq (tol 1e-3): d=1 N<=5 all scales {0,.9,1,1.1,2}tol; d=2: 1-2 clusters N<=4 all scales, 3 clusters N<=3 all scales and N<=4 for scales {0,1,1.1}tol; "
             "d=3 scales {0,1,1.1}tol: 1-2 clusters N<=4, 3 clusters N<=3; tol 1e-6: d=2 N<=3 scales {0,1,1.1}tol; "
             "uniq_int: {0,1,2}^1 N<=6, {0,1,2}^2 N<=4, {0,1}^3 N<=4; "
             "ismember: d=1 <=3 cols, d=2 a<=2 b<=3 cols over {0,1,2}^2, d=3 a<=1 b<=2 over {0,1,2}^3; "
             "intersect: d=1,2 a<=2 b<=2 cols; both tiers: far/scaled cluster frames (origins 1e3,1e5,1e6 on axis and diagonal, x1e3, x1e-3) "
             "and ismember_columns with 6 mixed dtype pairs (int/float with fractional entries, int32/int64), d=1 <=3 cols, d=2 a 1 col b <=2 cols; signed integer columns (int64/int32, sort T/F): 2 rows entries {-3..3} a 1 col b <=2 cols, "
             "2 rows {-3,-1,0,2} a,b <=2 cols, 3 rows {-3..3} a,b 1 col, 3 rows {-2,0,3} a 1 col b <=2 cols, 3 rows {-1,2} a,b <=2 cols",
    "thorough": "uniq: d=1 N<=6, d=2 N<=5 scales {0,.9,1,1.1,2}tol, d=3 N<=4 same scales, tol 1e-3; d=2 N<=4 and d=1 N<=5 at tol 1e-6; "
                "uniq_int: {0,1,2}^1 N<=8, {0,1,2}^2 N<=5, {0,1}^3 N<=5; ismember: d=1 <=4 cols, d=2 a,b<=3 cols, "
                "d=3 a,b<=2 cols; intersect: d=1,2 a<=3 b<=2 cols, d=3 ({0,1}^3) a<=2 b<=2",
}
MIN_CLASSES = 6
CHUNK = 8

SCALES = [0.0, 0.9, 1.0, 1.1, 2.0]
DELTA = 0.05  # offsets in units of tol

RAYS = {
    1: [("o", (0.0,)), ("+x", (1.0,)), ("-x", (-1.0,))],
    2: [("o", (0.0, 0.0)), ("+x", (1.0, 0.0)), ("+y", (0.0, 1.0)), ("-x", (-1.0, 0.0)), ("d", (0.6, 0.8))],
    3: [("o", (0.0, 0.0, 0.0)), ("+x", (1.0, 0.0, 0.0)), ("+y", (0.0, 1.0, 0.0)), ("-z", (0.0, 0.0, -1.0)),
        ("d", (0.6, 0.0, 0.8)), ("g", (2.0 / 3.0, 2.0 / 3.0, 1.0 / 3.0))],
}


# --------------------------------------------------------------------------- case lists


def _configs(d, scale_idx, max_clusters=3):
    """Unordered sets of 1..3 clusters (ray index, scale index); the origin has no scale."""
    rays = list(range(len(RAYS[d])))
    out = []
    for k in range(1, max_clusters + 1):
        for rs in itertools.combinations(rays, k):
            opts = [[0] if RAYS[d][r][0] == "o" else list(scale_idx) for r in rs]
            for ss in itertools.product(*opts):
                out.append([[r, s] for r, s in zip(rs, ss)])
    return out


def cases(tier):
    out = []
    all_s = list(range(len(SCALES)))
    sharp = [0, 2, 3]  # 0, 1.0 tol, 1.1 tol
    # (dimension, tol, scale indices, {number of clusters: maximal word length})
    if tier == "quick":
        plan = [
            (1, 1e-3, all_s, {1: 5, 2: 5, 3: 5}),
            (2, 1e-3, all_s, {1: 4, 2: 4, 3: 3}),
            (2, 1e-3, sharp, {3: 4}),
            (3, 1e-3, sharp, {1: 4, 2: 4, 3: 3}),
            (2, 1e-6, sharp, {1: 3, 2: 3, 3: 3}),
        ]
    else:
        plan = [
            (1, 1e-3, all_s, {1: 6, 2: 6, 3: 6}),
            (2, 1e-3, all_s, {1: 5, 2: 5, 3: 5}),
            (3, 1e-3, all_s, {1: 4, 2: 4, 3: 4}),
            (2, 1e-6, all_s, {1: 4, 2: 4, 3: 4}),
            (1, 1e-6, all_s, {1: 5, 2: 5, 3: 5}),
        ]
    todo = {}  # (d, tol, cfg) -> N, maximum over the plan entries
    for d, tol, sidx, Ns in plan:
        for cfg in _configs(d, sidx):
            if len(cfg) not in Ns:
                continue
            k = (d, tol, tuple(map(tuple, cfg)))
            todo[k] = max(todo.get(k, 0), Ns[len(cfg)])
    for (d, tol, cfg), N in todo.items():
        cfg = [list(c) for c in cfg]
        # group the offset axes into one case when the word space is small
        nw = sum((3 * len(cfg)) ** n for n in range(1, N + 1))
        if nw * d <= 40000:
            out.append({"kind": "uniq", "d": d, "tol": tol, "clusters": cfg, "axes": list(range(d)), "N": N})
        else:
            for ax in range(d):
                out.append({"kind": "uniq", "d": d, "tol": tol, "clusters": cfg, "axes": [ax], "N": N})
    # translation / scale axis: the same kind of configurations far from the origin and magnified /
    # shrunk; "cluster diameter << tol << cluster distance" holds exactly as before (verified per case)
    nfar = {"quick": {1: 4, 2: 4, 3: 3}, "thorough": {1: 5, 2: 5, 3: 4}}[tier]
    for d in (1, 2, 3):
        for origin in _far_origins(d):
            for k in (1, 2, 3):
                for rs in itertools.combinations(range(len(DISP[d])), k):
                    out.append({"kind": "uniq", "d": d, "tol": FAR_TOL, "clusters": [[r, 0] for r in rs], "axes": list(range(d)),
                                "N": nfar[k], "frame": {"origin": origin}})
    nsc = {"quick": {1: 3, 2: 3, 3: 3}, "thorough": {1: 4, 2: 4, 3: 4}}[tier]
    for scale, tol in ((1e3, 1e-3), (1e-3, 1e-6)):
        for cfg in _configs(2, sharp):
            out.append({"kind": "uniq", "d": 2, "tol": tol, "clusters": cfg, "axes": [0, 1], "N": nsc[len(cfg)], "frame": {"scale": scale}})
    # integer lattice words, grouped by the first two letters
    ints = {"quick": [(1, 2, 6), (2, 2, 4), (3, 1, 4)], "thorough": [(1, 2, 8), (2, 2, 5), (3, 1, 5)]}[tier]
    for d, m, N in ints:
        nl = (m + 1) ** d
        for tol in (1e-3, 0.1):
            for first in range(nl):
                out.append({"kind": "uniq_int", "d": d, "m": m, "N": N, "tol": tol, "first": first})
    # ismember_columns: one case per block of a-sequences
    ism = {"quick": [(1, 2, 3, 3), (2, 2, 2, 3), (3, 2, 1, 2)], "thorough": [(1, 2, 4, 4), (2, 2, 3, 3), (3, 2, 2, 2)]}[tier]
    for d, m, na, nb in ism:
        nl = (m + 1) ** d
        n_a = sum(nl**k for k in range(1, na + 1))
        n_b = sum(nl**k for k in range(1, nb + 1))
        block = max(1, 30000 // (2 * n_b))
        for lo in range(0, n_a, block):
            out.append({"kind": "ismember", "d": d, "m": m, "na": na, "nb": nb, "lo": lo, "hi": min(n_a, lo + block)})
    # signed integer columns (entries of both signs, 2 and 3 rows), exhaustive over small column sets
    for fam in range(len(SIGNED)):
        d, vals, na, nb = SIGNED[fam]
        nl = len(vals) ** d
        n_a = sum(nl**k for k in range(1, na + 1))
        n_b = sum(nl**k for k in range(1, nb + 1))
        block = max(1, 60000 // (4 * n_b))
        for lo in range(0, n_a, block):
            out.append({"kind": "ismember_signed", "family": fam, "lo": lo, "hi": min(n_a, lo + block)})
    # mixed dtypes: membership is decided on the ORIGINAL values (1 == 1.0, 1 != 1.5)
    for d in (1, 2):
        for combo in range(len(MIXED)):
            out.append({"kind": "ismember_mixed", "d": d, "combo": combo, "ncol": 3 if d == 1 else 2, "ncol_a": 3 if d == 1 else 1})
    ins = {"quick": [(1, 2, 2, 2), (2, 2, 2, 2)], "thorough": [(1, 2, 3, 2), (2, 2, 3, 2), (3, 1, 2, 2)]}[tier]
    for d, m, na, nb in ins:
        nl = (m + 1) ** d
        n_a = sum(nl**k for k in range(1, na + 1))
        n_b = sum((3 * nl) ** k for k in range(1, nb + 1))
        block = max(1, 30000 // (3 * n_b))
        for lo in range(0, n_a, block):
            out.append({"kind": "intersect", "d": d, "m": m, "na": na, "nb": nb, "lo": lo, "hi": min(n_a, lo + block)})
    return out


# --------------------------------------------------------------------------- uniquify


@functools.lru_cache(maxsize=None)
def _words(nc, n):
    """All words of length n over nc*3 letters (letter = 3*cluster + offset) that use
    every cluster. Returns (letters[nw, n], label-word id[nw], table id -> (n2o, o2n, K))."""
    L = 3 * nc
    grid = np.indices((L,) * n).reshape(n, -1).T if n > 0 else np.zeros((1, 0), dtype=int)
    lab = grid // 3
    if n > 0:
        used = np.zeros((grid.shape[0], nc), dtype=bool)
        for c in range(nc):
            used[:, c] = (lab == c).any(axis=1)
        keep = used.all(axis=1)
        grid, lab = grid[keep], lab[keep]
    lab_id = np.zeros(grid.shape[0], dtype=np.int64)
    for j in range(n):
        lab_id = lab_id * nc + lab[:, j]
    table = {}
    for lw in itertools.product(range(nc), repeat=n):
        if len(set(lw)) != nc:
            continue
        i = 0
        for c in lw:
            i = i * nc + c
        table[i] = _expected_from_labels(lw)
    return grid, lab_id, table


def _expected_from_labels(labels):
    """Brute-force reference: one representative per label = its first occurrence, in
    order of first occurrence; old_2_new = rank of the label."""
    first = {}
    for i, c in enumerate(labels):
        if c not in first:
            first[c] = i
    order = sorted(first, key=lambda c: first[c])
    rank = {c: k for k, c in enumerate(order)}
    n2o = np.array([first[c] for c in order], dtype=np.int64)
    o2n = np.array([rank[c] for c in labels], dtype=np.int64)
    return n2o, o2n, len(order)


# "far" layout: cluster centres = origin + displacement; displacements pairwise >= 1.0 apart
DISP = {
    1: [(0.0,), (1.0,), (2.5,), (-1.0,)],
    2: [(0.0, 0.0), (1.0, 0.0), (2.5, 0.0), (0.0, 1.0), (-1.0, 2.5)],
    3: [(0.0, 0.0, 0.0), (1.0, 0.0, 0.0), (2.5, 0.0, 0.0), (0.0, 1.0, 0.0), (0.0, -1.0, 2.5)],
}
FAR_TOL = 1e-4


def _far_origins(d):
    out = []
    for mag in (1e3, 1e5, 1e6):
        ax = [0.0] * d
        ax[0] = mag
        out.append(ax)
        if d > 1:
            out.append([mag] * d)  # along the diagonal
    return out


def _cluster_table(d, tol, cfg, ax, frame=None):
    """Columns 3*c + o = centre_c + (0, +delta, -delta)[o] * tol * e_ax.

    frame None: centre = (1 + s tol) ray. frame {"scale": S}: centre = S ray + s tol ray (the
    same configuration magnified / shrunk, norm gaps still s tol). frame {"origin": O}: "far"
    layout, centre = O + DISP[c] (cluster entries index DISP)."""
    T = np.zeros((d, 3 * len(cfg)))
    for c, (r, s) in enumerate(cfg):
        if frame is not None and "origin" in frame:
            centre = np.array(frame["origin"], dtype=float) + np.array(DISP[d][r])
        else:
            ray = np.array(RAYS[d][r][1])
            if frame is None:
                centre = (1.0 + SCALES[s] * tol) * ray
            else:
                centre = frame["scale"] * ray + (SCALES[s] * tol) * ray
        for o, sg in enumerate((0.0, 1.0, -1.0)):
            p = centre.copy()
            p[ax] += sg * DELTA * tol
            T[:, 3 * c + o] = p
    return T


def _verify_separation(T, tol, unit=1.0):
    """Exact check of the 'well separated clusters' premise on the actual floats."""
    cols = [X.vec(T[:, j]) for j in range(T.shape[1])]
    t = X.fr(tol)
    for i in range(len(cols)):
        for j in range(i + 1, len(cols)):
            d2 = X.dist2(cols[i], cols[j])
            if i // 3 == j // 3:
                if not d2 <= (X.F(11, 100) * t) ** 2:
                    raise AssertionError("harness: cluster diameter too large")
            elif not d2 >= X.F(1, 4) * X.fr(unit) ** 2:
                raise AssertionError("harness: clusters not far apart")


_GAP_NAMES = ["same", "near", "knife", "over", "far"]


def _gap_classes(norms_sorted, tol):
    """Vectorised regime of a word: which kinds of gaps occur between consecutive sorted
    norms (this is what drives the norm pre-clustering of the implementation)."""
    if norms_sorted.shape[1] < 2:
        return np.zeros(norms_sorted.shape[0], dtype=np.int64)
    g = np.diff(norms_sorted, axis=1) / tol
    code = np.digitize(g, [0.2, 0.98, 1.02, 3.0])  # 0 same,1 near,2 knife,3 over,4 far
    mask = np.zeros(g.shape[0], dtype=np.int64)
    for k in range(5):
        mask |= ((code == k).any(axis=1)).astype(np.int64) << k
    # spread of the whole chain of "close" norms: a chain longer than tol is the regime in
    # which anchoring a norm bin at its first member differs from chaining
    return mask


def _mask_name(mask):
    return "+".join(n for k, n in enumerate(_GAP_NAMES) if mask >> k & 1) or "single"


def _run_uniq(case, out: Outcome):
    from porepy.utils.array_operations import uniquify_point_set

    d, tol, cfg, N = case["d"], case["tol"], case["clusters"], case["N"]
    nc = len(cfg)
    frame = case.get("frame")
    unit = frame["scale"] if frame and "scale" in frame else 1.0
    cfg_key = (d, tol, tuple(map(tuple, cfg)), repr(frame))
    # the empty point set
    try:
        u, n2o, o2n = uniquify_point_set(np.zeros((d, 0)), tol)
        if u.shape != (d, 0) or n2o.shape != (0,) or o2n.shape != (0,):
            out.violate("uniquify_point_set: wrong shapes for the empty point set", shapes=[u.shape, n2o.shape, o2n.shape])
        out.ev("uniq/empty")
    except Exception as e:
        out.violate("uniquify_point_set raised on the empty point set", error=repr(e))
        out.ev("uniq/exception")
    ftag = "" if frame is None else ("-far" if "origin" in frame else "-scaled")
    for ax in case["axes"]:
        T = _cluster_table(d, tol, cfg, ax, frame)
        _verify_separation(T, tol, unit)
        norms = np.sqrt((T**2).sum(axis=0))
        for n in range(nc, N + 1):
            letters, lab_id, table = _words(nc, n)
            masks = _gap_classes(np.sort(norms[letters], axis=1), tol)
            nviol = {"known": 0, "other": 0}
            for w in range(letters.shape[0]):
                idx = letters[w]
                pts = np.ascontiguousarray(T[:, idx])
                e_n2o, e_o2n, K = table[int(lab_id[w])]
                cls = f"uniq{ftag}/k{K}/{_mask_name(int(masks[w]))}"
                key = (cfg_key, int(lab_id[w]), n) if (K >= 2 and n > K) else None
                pts_before = pts.copy()
                try:
                    u, n2o, o2n = uniquify_point_set(pts, tol)
                except Exception as e:
                    out.violate("uniquify_point_set raised", error=repr(e), points=pts, tol=tol)
                    out.ev("uniq/exception", key)
                    continue
                if not np.array_equal(pts, pts_before):
                    out.violate("uniquify_point_set modified its input array", points=pts_before, after=pts, tol=tol)
                    out.ev("uniq/VIOLATION", key)
                    continue
                ok = (
                    u.shape == (d, K)
                    and n2o.shape == (K,)
                    and o2n.shape == (n,)
                    and np.array_equal(n2o, e_n2o)
                    and np.array_equal(o2n, e_o2n)
                    and np.array_equal(u, pts[:, e_n2o])
                )
                if not ok:
                    detail = dict(
                        points=pts, tol=tol, cluster_labels=(idx // 3), offsets_in_tol=[[0, DELTA, -DELTA][o] for o in idx % 3],
                        axis=ax, got_unique=u, got_new_2_old=n2o, got_old_2_new=o2n,
                        expected_new_2_old=e_n2o, expected_old_2_new=e_o2n,
                    )
                    what = "uniquify_point_set: result differs from one-representative-per-cluster reference"
                    # written-out reports are capped per kind, so that reports of the registered
                    # finding can never crowd out a violation of another kind
                    probe = {"what": what}
                    probe.update({k_: jsonable(v_) for k_, v_ in detail.items()})
                    kind = "known" if known_finding(case, probe) is not None else "other"
                    nviol[kind] += 1
                    if nviol[kind] <= 3:
                        out.violate(what, **detail)
                    else:
                        name = "suppressed_violation_reports" + ("_known_kind" if kind == "known" else "")
                        out.extra[name] = out.extra.get(name, 0) + 1
                    cls = "uniq/VIOLATION" + (":anchor-split" if kind == "known" else "")
                out.ev(cls, key)
    if not out.samples and nc >= 2:
        letters, lab_id, table = _words(nc, min(N, nc + 1))
        w = letters.shape[0] // 2
        T = _cluster_table(d, tol, cfg, case["axes"][0], frame)
        out.samples.append({"points": T[:, letters[w]].tolist(), "tol": tol, "labels": (letters[w] // 3).tolist(),
                            "expected_new_2_old": table[int(lab_id[w])][0].tolist()})


def _lattice(d, m):
    return [tuple(c) for c in itertools.product(range(m + 1), repeat=d)]


def _run_uniq_int(case, out: Outcome):
    from porepy.utils.array_operations import uniquify_point_set

    d, m, N, tol, first = case["d"], case["m"], case["N"], case["tol"], case["first"]
    lat = _lattice(d, m)
    L = np.array(lat, dtype=float).T  # (d, nl)
    nl = len(lat)
    norms2 = [sum(x * x for x in p) for p in lat]
    for n in range(1, N + 1):
        for rest in itertools.product(range(nl), repeat=n - 1):
            word = (first,) + rest
            pts = np.ascontiguousarray(L[:, list(word)])
            e_n2o, e_o2n, K = _expected_from_labels(word)
            eqnorm = len({norms2[c] for c in set(word)}) < K
            cls = f"int/k{min(K, 4)}/" + ("eqnorm" if eqnorm else "distnorm")
            key = (d, tol, word) if (K >= 2 and n > K and len(word) <= 4) else None
            try:
                u, n2o, o2n = uniquify_point_set(pts, tol)
            except Exception as e:
                out.violate("uniquify_point_set raised", error=repr(e), points=pts, tol=tol)
                out.ev("int/exception", key)
                continue
            ok = (
                u.shape == (d, K) and np.array_equal(n2o, e_n2o) and np.array_equal(o2n, e_o2n)
                and np.array_equal(u, pts[:, e_n2o])
            )
            if not ok:
                out.violate("uniquify_point_set: integer columns, result differs from first-occurrence reference",
                            points=pts, tol=tol, got_unique=u, got_new_2_old=n2o, got_old_2_new=o2n,
                            expected_new_2_old=e_n2o, expected_old_2_new=e_o2n)
                cls = "int/VIOLATION"
            out.ev(cls, key)


# --------------------------------------------------------------------------- membership


def _seqs(nl, kmax):
    """All sequences of 1..kmax letters, deterministic order."""
    out = []
    for k in range(1, kmax + 1):
        out.extend(itertools.product(range(nl), repeat=k))
    return out


def _run_ismember(case, out: Outcome):
    from porepy.utils.array_operations import ismember_columns

    d, m = case["d"], case["m"]
    lat = _lattice(d, m)
    L = np.array(lat, dtype=np.int64).T
    nl = len(lat)
    a_seqs = _seqs(nl, case["na"])[case["lo"]: case["hi"]]
    b_seqs = _seqs(nl, case["nb"])
    # d = 1 is run both with genuinely 1-d arrays and with (1, n) arrays
    layouts = ["1d", "2d"] if d == 1 else ["2d"]
    keyf = {True: lambda c: tuple(sorted(c)), False: lambda c: tuple(c)}
    for sa in a_seqs:
        for sb in b_seqs:
            for sort in (True, False):
                for layout in layouts:
                    if layout == "1d":
                        a = np.array([lat[i][0] for i in sa], dtype=np.int64)
                        b = np.array([lat[i][0] for i in sb], dtype=np.int64)
                    else:
                        a = np.ascontiguousarray(L[:, list(sa)])
                        b = np.ascontiguousarray(L[:, list(sb)])
                    kf = keyf[sort]
                    ka = [kf(lat[i]) for i in sa]
                    kb = [kf(lat[i]) for i in sb]
                    exp_mem = [x in kb for x in ka]
                    nm = sum(exp_mem)
                    perm_only = sort and any(
                        (kf(lat[i]) in kb) and all(lat[i] != lat[j] for j in sb) for i in sa
                    )
                    cls = f"ismember/{layout}/sort{int(sort)}/" + ("none" if nm == 0 else "all" if nm == len(sa) else "some") \
                        + ("/perm" if perm_only else "") + ("/dupb" if len(set(kb)) < len(kb) else "")
                    key = (d, layout, sort, sa, sb) if 0 < nm < len(sa) or perm_only else None
                    a0, b0 = a.copy(), b.copy()
                    try:
                        mem, ia = ismember_columns(a, b, sort=sort)
                        mem = np.asarray(mem)
                        ia = np.asarray(ia)
                    except Exception as e:
                        out.violate("ismember_columns raised", error=repr(e), a=a, b=b, sort=sort)
                        out.ev("ismember/exception", key)
                        continue
                    bad = None
                    if not (np.array_equal(a, a0) and np.array_equal(b, b0)):
                        bad = "an input array was modified"
                    elif mem.shape != (len(sa),) or mem.dtype != np.bool_:
                        bad = "membership mask has wrong shape/dtype"
                    elif mem.tolist() != exp_mem:
                        bad = "membership mask differs from brute force"
                    elif ia.shape != (nm,) or not np.issubdtype(ia.dtype, np.integer):
                        bad = "index array has wrong length/dtype"
                    elif any(not (0 <= int(j) < len(sb)) for j in ia):
                        bad = "index out of range"
                    else:
                        members = [x for x, t in zip(ka, exp_mem) if t]
                        if any(kb[int(j)] != x for j, x in zip(ia, members)):
                            bad = "b[:, ia] is not the member columns of a"
                    if bad:
                        out.violate("ismember_columns: " + bad, a=a, b=b, sort=sort, got_mask=mem, got_ia=ia, expected_mask=exp_mem)
                        cls = "ismember/VIOLATION"
                    out.ev(cls, key)
    if not out.samples:
        out.samples.append({"a": [list(lat[i]) for i in a_seqs[0]], "b_first": [list(lat[i]) for i in b_seqs[0]], "d": d})


# (dtype of a, values of a, dtype of b, values of b)
MIXED = [
    ("int64", [0, 1, 2], "float64", [0.0, 1.0, 1.5, 1.25, 2.0]),
    ("float64", [0.0, 1.0, 1.5, 2.0], "int64", [0, 1, 2]),
    ("float64", [0.0, 1.0, 1.5], "float64", [0.0, 1.0, 1.25, 1.5]),
    ("int32", [0, 1, 2], "int64", [0, 1, 2, 3]),
    ("int64", [0, 1, 2], "int32", [0, 1, 2, 3]),
    ("int32", [0, 1, 2], "float64", [0.0, 1.0, 1.5, 2.0]),
]


# (rows, entry values, max columns of a, max columns of b)
SIGNED = [
    (2, [-3, -2, -1, 0, 1, 2, 3], 1, 2),
    (2, [-3, -1, 0, 2], 2, 2),
    (3, [-3, -2, -1, 0, 1, 2, 3], 1, 1),
    (3, [-2, 0, 3], 1, 2),
    (3, [-1, 2], 2, 2),
]


def _run_ismember_signed(case, out: Outcome):
    from porepy.utils.array_operations import ismember_columns

    d, vals, na, nb = SIGNED[case["family"]]
    lat = list(itertools.product(vals, repeat=d))
    a_seqs = _seqs(len(lat), na)[case["lo"]: case["hi"]]
    b_seqs = _seqs(len(lat), nb)
    keyf = {True: lambda c: tuple(sorted(c)), False: lambda c: tuple(c)}
    for sa in a_seqs:
        cols_a = [lat[i] for i in sa]
        for sb in b_seqs:
            cols_b = [lat[i] for i in sb]
            for sort in (True, False):
                kf = keyf[sort]
                ka, kb = [kf(c) for c in cols_a], [kf(c) for c in cols_b]
                exp_mem = [x in kb for x in ka]
                nm = sum(exp_mem)
                members = [x for x, t in zip(ka, exp_mem) if t]
                neg = any(x < 0 for c in cols_a + cols_b for x in c)
                for dt in ("int64", "int32"):
                    a = np.array(cols_a, dtype=dt).T.copy()
                    b = np.array(cols_b, dtype=dt).T.copy()
                    key = (case["family"], sort, sa, sb[:1]) if (neg and dt == "int64") else None
                    a0, b0 = a.copy(), b.copy()
                    try:
                        mem, ia = ismember_columns(a, b, sort=sort)
                        mem, ia = np.asarray(mem), np.asarray(ia)
                    except Exception as e:
                        out.violate("ismember_columns raised (signed integer columns)", error=repr(e), a=a, b=b, dtype=dt, sort=sort)
                        out.ev("ismember-signed/exception", key)
                        continue
                    bad = None
                    if not (np.array_equal(a, a0) and np.array_equal(b, b0)):
                        bad = "an input array was modified"
                    elif mem.shape != (len(sa),) or mem.tolist() != exp_mem:
                        bad = "membership mask differs from brute-force column comparison"
                    elif ia.shape != (nm,) or any(not (0 <= int(j) < len(sb)) for j in ia):
                        bad = "index array has wrong length / range"
                    elif any(kb[int(j)] != x for j, x in zip(ia, members)):
                        bad = "b[:, ia] is not the member columns of a"
                    if bad:
                        out.violate("ismember_columns (signed integer columns): " + bad, a=a, b=b, dtype=dt, sort=sort, got_mask=mem,
                                    got_ia=ia, expected_mask=exp_mem)
                        out.ev("ismember-signed/VIOLATION", key)
                    else:
                        out.ev(f"ismember-signed/d{d}/{dt}/sort{int(sort)}/" + ("neg" if neg else "nonneg")
                               + ("/none" if nm == 0 else "/all" if nm == len(sa) else "/some"), key)
    if not out.samples:
        out.samples.append({"rows": d, "entries": vals, "a_first": [list(c) for c in (lat[i] for i in a_seqs[0])], "b": "all sequences of <= %d columns" % nb})


def _run_ismember_mixed(case, out: Outcome):
    from porepy.utils.array_operations import ismember_columns

    d, ncol = case["d"], case["ncol"]
    dta, va, dtb, vb = MIXED[case["combo"]]
    la = list(itertools.product(va, repeat=d))
    lb = list(itertools.product(vb, repeat=d))
    if d == 2:  # keep the b alphabet small: drop letters with two fractional entries
        lb = [c for c in lb if sum(1 for x in c if x != int(x)) <= 1]
    a_seqs, b_seqs = _seqs(len(la), case["ncol_a"]), _seqs(len(lb), ncol)
    keyf = {True: lambda c: tuple(sorted(c)), False: lambda c: tuple(c)}
    tag = f"{dta}/{dtb}"
    for sa in a_seqs:
        a = np.array([la[i] for i in sa], dtype=dta).T.copy()
        for sb in b_seqs:
            b = np.array([lb[i] for i in sb], dtype=dtb).T.copy()
            for sort in (True, False):
                kf = keyf[sort]
                ka = [kf(la[i]) for i in sa]
                kb = [kf(lb[i]) for i in sb]
                exp_mem = [x in kb for x in ka]
                nm = sum(exp_mem)
                # a fractional column of b whose truncation / rounding is a column of a
                lure = any(any(x != int(x) for x in lb[j]) and kf(tuple(int(x) for x in lb[j])) in ka for j in sb)
                key = (d, tag, sort, sa, sb) if (lure or 0 < nm < len(sa)) else None
                a0, b0 = a.copy(), b.copy()
                try:
                    mem, ia = ismember_columns(a, b, sort=sort)
                    mem, ia = np.asarray(mem), np.asarray(ia)
                except Exception as e:
                    out.violate("ismember_columns raised (mixed dtypes)", error=repr(e), a=a, b=b, dtypes=tag, sort=sort)
                    out.ev("ismember-mixed/exception", key)
                    continue
                bad = None
                if not (np.array_equal(a, a0) and np.array_equal(b, b0) and a.dtype == a0.dtype and b.dtype == b0.dtype):
                    bad = "an input array was modified"
                elif mem.shape != (len(sa),) or mem.tolist() != exp_mem:
                    bad = "membership mask differs from brute force on the original values"
                elif ia.shape != (nm,) or any(not (0 <= int(j) < len(sb)) for j in ia):
                    bad = "index array has wrong length / range"
                elif any(kb[int(j)] != x for j, x in zip(ia, [x for x, t in zip(ka, exp_mem) if t])):
                    bad = "b[:, ia] is not the member columns of a"
                if bad:
                    out.violate("ismember_columns (mixed dtypes): " + bad, a=a, b=b, dtypes=tag, sort=sort, got_mask=mem, got_ia=ia,
                                expected_mask=exp_mem)
                    out.ev("ismember-mixed/VIOLATION", key)
                else:
                    out.ev(f"ismember-mixed/{tag}/" + ("lure" if lure else "plain") + ("/none" if nm == 0 else "/some"), key)


TOLS_INTERSECT = [1e-10, 1e-3, 0.25]
PERT = [0.0, 0.5, 2.0]  # perturbation of b-letters along e_0, units of tol


@functools.lru_cache(maxsize=None)
def _intersect_tables(d, m, tol):
    """b-letter coordinates and the exact closeness relation a-letter x b-letter."""
    lat = _lattice(d, m)
    A = np.array(lat, dtype=float).T
    cols = []
    for p in lat:
        for f in PERT:
            q = list(map(float, p))
            q[0] += f * tol
            cols.append(q)
    B = np.array(cols).T
    t2 = X.fr(tol) ** 2
    rel = np.zeros((A.shape[1], B.shape[1]), dtype=bool)
    for i in range(A.shape[1]):
        ai = X.vec(A[:, i])
        for j in range(B.shape[1]):
            d2 = X.dist2(ai, X.vec(B[:, j]))
            # away from the tolerance band: either <= (0.6 tol)^2 or >= (1.9 tol)^2
            if d2 <= (X.F(6, 10)) ** 2 * t2:
                rel[i, j] = True
            elif d2 >= (X.F(19, 10)) ** 2 * t2:
                rel[i, j] = False
            else:
                raise AssertionError("harness: intersect_sets letter pair inside the tolerance band")
    return A, B, rel


def _run_intersect(case, out: Outcome):
    from porepy.utils.array_operations import intersect_sets

    d, m = case["d"], case["m"]
    nl = (m + 1) ** d
    a_seqs = _seqs(nl, case["na"])[case["lo"]: case["hi"]]
    b_seqs = _seqs(3 * nl, case["nb"])
    layouts = ["1d", "2d"] if d == 1 else ["2d"]
    for tol in TOLS_INTERSECT:
        A, B, rel = _intersect_tables(d, m, tol)
        for sa in a_seqs:
            for sb in b_seqs:
                exp = [[j for j, lb in enumerate(sb) if rel[la, lb]] for la in sa]
                e_ia = [i for i, l in enumerate(exp) if l]
                e_ib = sorted({j for l in exp for j in l})
                multi = any(len(l) > 1 for l in exp)
                pert = any(lb % 3 == 1 and rel[la, lb] for la in sa for lb in sb)
                cls = f"intersect/tol{tol:g}/" + ("none" if not e_ia else "all" if len(e_ia) == len(sa) else "some") \
                    + ("/multi" if multi else "") + ("/pert" if pert else "")
                key = (d, tol, sa, sb) if (e_ia and (len(e_ia) < len(sa) or len(e_ib) < len(sb))) else None
                for layout in layouts:
                    a = np.ascontiguousarray(A[:, list(sa)])
                    b = np.ascontiguousarray(B[:, list(sb)])
                    if layout == "1d":
                        a, b = a[0].copy(), b[0].copy()
                    a0, b0 = a.copy(), b.copy()
                    try:
                        ia, ib, a_in_b, inter = intersect_sets(a, b, tol)
                    except Exception as e:
                        out.violate("intersect_sets raised", error=repr(e), a=a, b=b, tol=tol)
                        out.ev("intersect/exception", key)
                        continue
                    bad = None
                    try:
                        got = [sorted(int(j) for j in l) for l in inter]
                        if not (np.array_equal(a, a0) and np.array_equal(b, b0)):
                            bad = "an input array was modified"
                        elif got != exp:
                            bad = "intersection lists differ from brute force"
                        elif any(len(set(l)) != len(l) for l in got):
                            bad = "duplicate index in an intersection list"
                        elif np.asarray(ia).tolist() != e_ia:
                            bad = "ia differs from brute force"
                        elif np.asarray(ib).tolist() != e_ib:
                            bad = "ib differs from brute force"
                        elif np.asarray(a_in_b).dtype != np.bool_ or np.asarray(a_in_b).tolist() != [bool(l) for l in exp]:
                            bad = "a_in_b differs from brute force"
                    except Exception as e:  # malformed return value
                        bad = "malformed return value: " + repr(e)
                    if bad:
                        out.violate("intersect_sets: " + bad, a=a, b=b, tol=tol, got_ia=ia, got_ib=ib, got_a_in_b=a_in_b,
                                    got_intersection=[list(map(int, l)) for l in inter], expected_intersection=exp)
                        out.ev("intersect/VIOLATION", key)
                    else:
                        out.ev(cls + ("/1d" if layout == "1d" else ""), key)
    if not out.samples:
        out.samples.append({"a_first": A[:, list(a_seqs[0])].tolist(), "tolerances": TOLS_INTERSECT, "d": d})


def run_case(case) -> Outcome:
    out = Outcome()
    kind = case["kind"]
    if kind == "uniq":
        _run_uniq(case, out)
    elif kind == "uniq_int":
        _run_uniq_int(case, out)
    elif kind == "ismember_signed":
        _run_ismember_signed(case, out)
    elif kind == "ismember_mixed":
        _run_ismember_mixed(case, out)
    elif kind == "ismember":
        _run_ismember(case, out)
    elif kind == "intersect":
        _run_intersect(case, out)
    else:
        raise ValueError(kind)
    return out


KNOWN_ANCHOR_SPLIT = "C34-norm-cluster-anchor-split"


def _anchored_bins(norms, thr):
    """Norm pre-clustering with every bin anchored at its first (smallest) norm: a new bin
    starts when |norm - first norm of the bin| > thr. Computed here independently of the
    implementation. Returns the bin index of every point."""
    order = sorted(range(len(norms)), key=lambda i: norms[i])
    bins = [0] * len(norms)
    b, anchor = 0, norms[order[0]]
    for i in order:
        if abs(anchor - norms[i]) > thr:
            b += 1
            anchor = norms[i]
        bins[i] = b
    return bins


def known_finding(case, viol):
    """Key of the registered finding, only for: a uniquify_point_set violation on a clustered
    word in which two points of ONE well-separated cluster have norms on different sides of an
    anchored norm-bin boundary, AND the observed output is exactly "that cluster was not merged
    across the boundary, everything else right" (= first-occurrence uniquification with respect
    to the labels (cluster, anchored norm bin)). Anything else stays a violation."""
    try:
        if not case or case.get("kind") != "uniq":
            return None
        if viol.get("what") != "uniquify_point_set: result differs from one-representative-per-cluster reference":
            return None
        pts = np.array(viol["points"], dtype=float)
        tol = float(viol["tol"])
        labels = [int(c) for c in viol["cluster_labels"]]
        if pts.ndim != 2 or pts.shape[1] != len(labels):
            return None
        norms = [float(x) for x in np.sqrt(np.sum(pts**2, axis=0))]
        got_n2o = [int(i) for i in viol["got_new_2_old"]]
        got_o2n = [int(i) for i in viol["got_old_2_new"]]
        got_u = np.array(viol["got_unique"], dtype=float).reshape(pts.shape[0], -1)
        # a norm difference that equals tol up to rounding may fall on either side in the
        # implementation's arithmetic: both readings of the boundary are admitted
        slack = max(1e-9 * tol, 8 * float(np.spacing(max(norms))))
        for thr in (tol, tol - slack, tol + slack):
            bins = _anchored_bins(norms, thr)
            refined = list(zip(labels, bins))
            split = any(labels[i] == labels[j] and bins[i] != bins[j] for i in range(len(labels)) for j in range(i))
            if not split:
                continue
            e_n2o, e_o2n, K = _expected_from_labels(refined)
            if got_n2o == e_n2o.tolist() and got_o2n == e_o2n.tolist() and got_u.shape == (pts.shape[0], K) \
                    and np.array_equal(got_u, pts[:, e_n2o]):
                return KNOWN_ANCHOR_SPLIT
    except Exception:
        return None
    return None
