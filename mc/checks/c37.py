"""C37 — block-diagonal inversion returns the true inverse.

Engine E. ``invert_diagonal_blocks`` (numba and python paths) on every composition of
n <= 6 into blocks of size 1..4 with every assignment of block patterns;
``generate_permutation_to_block_diag_matrix`` + ``invert_permuted_block_diag_matrix`` on
every row permutation x column permutation of those matrices for n <= 4 and on a generator
set of permutations for n = 5, 6. Oracle: ``numpy.linalg.inv`` of the dense matrix.
"""

from __future__ import annotations

import itertools

import numpy as np
import scipy.sparse as sps

from mc.core import Outcome
from mc.oracles.grpK_sparse import digest

PROPERTY = "C37"
LEVEL = "exploration"
RULE = (
    "block-diagonal matrices from all compositions of n into parts 1..4, every assignment of "
    "the block patterns {dense, lower triangular, cyclic-permutation, diagonal} (diagonally "
    "dominant / scaled-permutation integer values, cond < 50), formats csr/csc, sorted and "
    "reversed minor indices, methods numba/python/default; permuted case: A[i,j] = B[rp[i],cp[j]] "
    "for every (rp, cp). Non-trivial = at least two blocks of which one has size >= 2, or a "
    "non-identity permutation; distinct by (composition, patterns, storage, method, permutations)"
)
ASSUMPTIONS = [
    "block values are small integers; every block is nonsingular with condition number < 50",
    "block sizes are passed as int64 arrays (documented requirement of the numba path)",
    "tolerance 1e-10 * max|inverse| (measured floor 2e-16)",
    "matrix data dtypes float32, int64, int32 are tried with method='python' only: the numba path of "
    "the unchanged code accepts float64 data only (TypeError for anything else)",
    "the numba kernel is defined (and re-loaded from the numba cache, ~60 ms) inside every call of "
    "invert_diagonal_blocks; the harness memoises numba.njit per code object for closure-free "
    "functions so that the same compiled kernel is reused; the first call in every case uses the "
    "unpatched decorator",
    "computed permutations are only required to expose square blocks whose sizes sum to n "
    "(not to be the finest decomposition)",
    "matrices with explicitly stored zeros inside the blocks form a separate sub-alphabet "
    "(violation tag explicit-zeros)",
    "purity: the bitwise storage (data, indices, indptr, format, shape) of the matrix and the "
    "permutation / size arrays must be unchanged by generate_permutation_to_block_diag_matrix, "
    "invert_permuted_block_diag_matrix and invert_diagonal_blocks (none is documented in-place)",
    "the permuted inverter is called with the computed permutation on a fresh equal matrix, on the "
    "very object the permutation was generated from, with the constructed permutation, and (stored "
    "zeros) with the permutation generated from the matrix without stored zeros",
]
BOUNDS = {
    "quick": "inversion: all 59 compositions of n <= 6 (parts <= 4), all pattern assignments; "
    "permuted: n <= 4 all (n!)^2 permutation pairs x all pattern assignments; n = 5, 6: 8 generator "
    "permutations (64 pairs) x uniform pattern assignments",
    "thorough": "same, and n = 5: all 120 row permutations x 8 generator column permutations "
    "(and vice versa)",
}
MIN_CLASSES = 10
CHUNK = 2
TOL = 1e-10
MAX_VIOL = 4
PATTERNS = ("dense", "lower", "perm", "diag")


def compositions(n, maxpart=4):
    if n == 0:
        return [[]]
    out = []
    for p in range(1, min(n, maxpart) + 1):
        out += [[p] + rest for rest in compositions(n - p, maxpart)]
    return out


def pattern_choices(comp, uniform=False):
    if uniform:
        return [tuple(p if s > 1 else "diag" for s in comp) for p in PATTERNS] if any(s > 1 for s in comp) else [tuple("diag" for _ in comp)]
    opts = [PATTERNS if s > 1 else ("diag",) for s in comp]
    return list(itertools.product(*opts))


def block(s, pattern, seed):
    M = np.zeros((s, s))
    if pattern in ("dense", "lower"):
        off = [1.0, -1.0, 2.0, -2.0]
        for i in range(s):
            for j in range(s):
                if i == j:
                    M[i, j] = 2 * s + 1 + seed % 3
                elif pattern == "dense" or j < i:
                    M[i, j] = off[(3 * i + 5 * j + seed) % 4]
    elif pattern == "perm":
        for i in range(s):
            M[i, (i + 1) % s] = 2 + (i + seed) % 4
    else:
        for i in range(s):
            M[i, i] = 2 + (i + seed) % 5
    return M


def assemble(comp, pats):
    n = sum(comp)
    B = np.zeros((n, n))
    inblock = np.zeros((n, n), dtype=bool)
    o = 0
    for k, (s, p) in enumerate(zip(comp, pats)):
        B[o: o + s, o: o + s] = block(s, p, k)
        inblock[o: o + s, o: o + s] = True
        o += s
    return B, inblock


def to_sparse(D, stored, fmt, order):
    """Compressed matrix storing exactly the positions ``stored`` (bool array)."""
    n, m = D.shape
    indptr, indices, data = [0], [], []
    major = range(n) if fmt == "csr" else range(m)
    for k in major:
        if fmt == "csr":
            ent = [(j, D[k, j]) for j in range(m) if stored[k, j]]
        else:
            ent = [(i, D[i, k]) for i in range(n) if stored[i, k]]
        if order == "reversed":
            ent = ent[::-1]
        indices += [e[0] for e in ent]
        data += [e[1] for e in ent]
        indptr.append(len(indices))
    cls = sps.csr_matrix if fmt == "csr" else sps.csc_matrix
    return cls((np.array(data, dtype=float), np.array(indices, dtype=np.int32), np.array(indptr, dtype=np.int32)), shape=D.shape)


def generator_perms(n):
    ident = list(range(n))
    out = [ident]
    for i in range(n - 1):
        p = ident.copy()
        p[i], p[i + 1] = p[i + 1], p[i]
        out.append(p)
    out.append(ident[::-1])
    out.append(ident[0::2] + ident[1::2])  # interleave
    out.append(ident[1:] + ident[:1])  # rotation
    seen, res = set(), []
    for p in out:
        if tuple(p) not in seen:
            seen.add(tuple(p))
            res.append(p)
    return res[:8] if n > 4 else res


def cases(tier):
    out = []
    for n in range(1, 7):
        for comp in compositions(n):
            out.append({"kind": "invert", "comp": comp})
    for n in range(1, 5):
        for comp in compositions(n):
            rps = [list(p) for p in itertools.permutations(range(n))]
            step = 6
            for lo in range(0, len(rps), step):
                out.append({"kind": "permuted", "comp": comp, "rows": rps[lo: lo + step], "cols": "all", "uniform": False})
    for n in (5, 6):
        gens = generator_perms(n)
        for comp in compositions(n):
            out.append({"kind": "permuted", "comp": comp, "rows": gens, "cols": "gen", "uniform": True})
    if tier == "thorough":
        n = 5
        allp = [list(p) for p in itertools.permutations(range(n))]
        for comp in compositions(n):
            for lo in range(0, len(allp), 30):
                out.append({"kind": "permuted", "comp": comp, "rows": allp[lo: lo + 30], "cols": "gen", "uniform": True})
                out.append({"kind": "permuted", "comp": comp, "rows": allp[lo: lo + 30], "cols": "gen", "uniform": True, "swap": True})
    return out


# ----------------------------------------------------------------- numba memoisation


class _MemoNjit:
    """Reuse the compiled kernel of closure-free functions defined inside a function."""

    memo: dict = {}

    def __init__(self, mo):
        self.mo = mo
        self.real = mo.njit

    def __enter__(self):
        real = self.real

        def memo_njit(*a, **kw):
            dec = real(*a, **kw)

            def wrap(fn):
                if getattr(fn, "__closure__", None) is not None:
                    return dec(fn)
                key = (fn.__code__, repr(a), repr(sorted(kw.items())))
                if key not in _MemoNjit.memo:
                    _MemoNjit.memo[key] = dec(fn)
                return _MemoNjit.memo[key]

            return wrap

        self.mo.njit = memo_njit
        return self

    def __exit__(self, *exc):
        self.mo.njit = self.real
        return False


class _Rec:
    def __init__(self, out):
        self.out, self.n = out, {}

    def bad(self, tag, what, **detail):
        k = self.n.get(tag, 0)
        self.n[tag] = k + 1
        if k < MAX_VIOL:
            self.out.violate(what, tag=tag, **detail)
        else:
            self.out.extra["suppressed_violations"] = self.out.extra.get("suppressed_violations", 0) + 1


def _close(got, exp):
    scale = max(1.0, float(np.max(np.abs(exp))))
    return got.shape == exp.shape and bool(np.all(np.abs(got - exp) <= TOL * scale))


# -------------------------------------------------------------------------- inversion


def run_invert(case, out):
    from porepy.numerics.linalg import matrix_operations as mo

    rec = _Rec(out)
    comp = case["comp"]
    n = sum(comp)
    first = True
    worst = 0.0
    for pats in pattern_choices(comp):
        B, inblock = assemble(comp, pats)
        exp = np.linalg.inv(B)
        for ez in (False, True):
            stored = inblock if ez else (B != 0)
            if ez and np.array_equal(stored, B != 0):
                continue  # no structural zero inside a block: same matrix
            for fmt in ("csr", "csc"):
                for order in ("sorted", "reversed"):
                    for method in ("numba", "python", None):
                        for zins in ("none", "front", "middle"):
                            if zins != "none" and (fmt, order, ez) != ("csr", "sorted", False):
                                continue
                            sizes = list(comp)
                            if zins == "front":
                                sizes = [0] + sizes
                            elif zins == "middle":
                                sizes = sizes[: len(sizes) // 2] + [0] + sizes[len(sizes) // 2:]
                            A = to_sparse(B, stored, fmt, order)
                            s_arg = np.array(sizes, dtype=np.int64)
                            before = (digest(A), digest(s_arg))
                            det = dict(blocks=comp, patterns=list(pats), format=fmt, order=order, method=method,
                                       sizes=sizes, explicit_zeros_in_blocks=ez, matrix=B.tolist())
                            tag = "invert_diagonal_blocks" + ("/explicit-zeros" if ez else "")
                            try:
                                if first and method != "python":
                                    inv = mo.invert_diagonal_blocks(A, s_arg, method)
                                    first = False
                                else:
                                    with _MemoNjit(mo):
                                        inv = mo.invert_diagonal_blocks(A, s_arg, method)
                                bad = None
                                if not sps.issparse(inv):
                                    bad = "result is not sparse"
                                else:
                                    got = inv.toarray()
                                    if not _close(got, exp):
                                        bad = "differs from numpy.linalg.inv by %.3g" % (float(np.max(np.abs(got - exp))) if got.shape == exp.shape else np.inf)
                                    else:
                                        worst = max(worst, float(np.max(np.abs(got - exp))))
                                    if (digest(A), digest(s_arg)) != before:
                                        bad = "an argument was modified (storage digest changed)"
                            except Exception as e:  # noqa: BLE001
                                bad = "raised " + repr(e)
                            cls = f"invert/{method}/{fmt}/{order}/{'ez' if ez else 'nz'}/" + "+".join(sorted(set(pats)))
                            if bad:
                                rec.bad(tag, "invert_diagonal_blocks: " + bad, **det)
                                cls = "VIOLATION"
                            nontrivial = len(comp) >= 2 and max(comp) >= 2
                            out.ev(cls, ("inv", tuple(comp), pats, fmt, order, method, zins, ez) if nontrivial else None)
    # dtype axis of the matrix data: the python path of the unchanged code inverts integer and
    # float32 data exactly (float64 result); the numba path accepts float64 data only (TypeError
    # otherwise), so only method="python" is exercised here. Blocks are integer valued, their
    # inverses are not.
    for pats in pattern_choices(comp):
        B, inblock = assemble(comp, pats)
        exp = np.linalg.inv(B)
        for dt in ("float32", "int64", "int32"):
            for fmt in ("csr", "csc"):
                for order in ("sorted", "reversed"):
                    A0 = to_sparse(B, B != 0, fmt, order)
                    A = type(A0)((A0.data.astype(dt), A0.indices.copy(), A0.indptr.copy()), shape=A0.shape)
                    s_arg = np.array(comp, dtype=np.int64)
                    before = (digest(A), digest(s_arg))
                    det = dict(blocks=comp, patterns=list(pats), format=fmt, order=order, method="python",
                               data_dtype=dt, matrix=B.tolist())
                    try:
                        inv = mo.invert_diagonal_blocks(A, s_arg, "python")
                        bad = None
                        if A.dtype != np.dtype(dt):
                            bad = "harness: dtype not kept"
                        elif not sps.issparse(inv):
                            bad = "result is not sparse"
                        else:
                            got = np.asarray(inv.toarray(), dtype=float)
                            if not _close(got, exp):
                                bad = "differs from numpy.linalg.inv by %.3g (result dtype %s)" % (
                                    float(np.max(np.abs(got - exp))) if got.shape == exp.shape else np.inf, inv.dtype)
                            elif (digest(A), digest(s_arg)) != before:
                                bad = "an argument was modified (storage digest changed)"
                    except Exception as e:  # noqa: BLE001
                        bad = "raised " + repr(e)
                    cls = f"invert/python/{fmt}/{order}/dtype-{dt}"
                    if bad:
                        rec.bad("invert_diagonal_blocks/dtype", "invert_diagonal_blocks: " + bad, **det)
                        cls = "VIOLATION"
                    out.ev(cls, ("invdt", tuple(comp), pats, fmt, order, dt) if max(comp) >= 2 else None)
    # documented rejection of unknown methods
    B, inblock = assemble(comp, tuple("diag" for _ in comp))
    try:
        mo.invert_diagonal_blocks(to_sparse(B, B != 0, "csr", "sorted"), np.array(comp, dtype=np.int64), "no-such-method")
        rec.bad("invert-method", "unknown method accepted")
        out.ev("VIOLATION")
    except ValueError:
        out.ev("invert/unknown-method-rejected")
    except Exception as e:  # noqa: BLE001
        rec.bad("invert-method", "unknown method raised " + repr(e))
        out.ev("VIOLATION")
    out.extra["max_abs_error_e-18"] = 0  # placeholder so that the key exists in every case
    out.samples.append({"blocks": comp, "patterns": "all assignments", "max_abs_error": worst})


# --------------------------------------------------------------------------- permuted


def _check_structure(A_dense, rp, cp, sizes):
    n = A_dense.shape[0]
    rp, cp, sizes = np.asarray(rp), np.asarray(cp), np.asarray(sizes)
    if sorted(rp.tolist()) != list(range(n)) or sorted(cp.tolist()) != list(range(n)):
        return "row/column permutation is not a permutation of 0..n-1"
    if sizes.size == 0 or np.any(sizes < 1) or int(sizes.sum()) != n:
        return "block sizes are not positive integers summing to n"
    M = A_dense[rp][:, cp]
    blk = np.repeat(np.arange(sizes.size), sizes)
    off = blk[:, None] != blk[None, :]
    if np.any(M[off] != 0):
        return "permuted matrix has non-zeros outside the claimed diagonal blocks"
    return None


def run_permuted(case, out):
    from porepy.numerics.linalg import matrix_operations as mo

    rec = _Rec(out)
    comp = case["comp"]
    n = sum(comp)
    rows = case["rows"]
    cols = [list(p) for p in itertools.permutations(range(n))] if case["cols"] == "all" else generator_perms(n)
    if case.get("swap"):
        rows, cols = cols, rows
    first = True
    ident = list(range(n))
    for pats in pattern_choices(comp, uniform=case["uniform"]):
        B, inblock = assemble(comp, pats)
        for rp in rows:
            for cp in cols:
                A_dense = B[rp][:, cp]
                exp = np.linalg.inv(A_dense)
                ib = inblock[rp][:, cp]
                clean_perm = None
                for ez in (False, True):
                    stored = ib if ez else (A_dense != 0)
                    if ez and np.array_equal(stored, A_dense != 0):
                        continue
                    # storage format alternates deterministically with the permutation
                    fmt = "csr" if (sum(rp[:2]) + sum(cp[:1])) % 2 == 0 else "csc"
                    order = "reversed" if (rp[0] + cp[-1]) % 2 else "sorted"
                    A = A_gen = to_sparse(A_dense, stored, fmt, order)
                    det = dict(blocks=comp, patterns=list(pats), row_perm_of_construction=rp, col_perm_of_construction=cp,
                               format=fmt, order=order, explicit_zeros_in_blocks=ez, matrix=A_dense.tolist())
                    tagx = "/explicit-zeros" if ez else ""
                    nontrivial = rp != ident or cp != ident
                    key = ("perm", tuple(comp), pats, tuple(rp), tuple(cp), ez) if nontrivial else None
                    # 1. computed permutation exposes square blocks
                    before = digest(A)
                    try:
                        r_, c_, sz = mo.generate_permutation_to_block_diag_matrix(A)
                        bad = _check_structure(A_dense, r_, c_, sz)
                        if bad is None and digest(A) != before:
                            bad = "the argument matrix was modified (storage digest changed)"
                    except Exception as e:  # noqa: BLE001
                        r_ = c_ = sz = None
                        bad = "raised " + repr(e)
                    if not ez:
                        clean_perm = None if (sz is None or bad) else (np.asarray(r_), np.asarray(c_), np.asarray(sz))
                    nblocks_true = sum(1 if p in ("dense", "lower", "perm") else s for s, p in zip(comp, pats))
                    cls = "generate/" + ("ez/" if ez else "") + (
                        "n/a" if sz is None else "finest" if len(sz) == nblocks_true else "coarser" if len(sz) < nblocks_true else "finer")
                    if bad:
                        rec.bad("generate_permutation" + tagx, "generate_permutation_to_block_diag_matrix: " + bad,
                                observed=None if sz is None else [np.asarray(r_).tolist(), np.asarray(c_).tolist(), np.asarray(sz).tolist()], **det)
                        cls = "VIOLATION"
                    out.ev(cls, key)
                    # 2. the permuted inverter with the computed and with the constructed permutation
                    variants = []
                    if sz is not None and not bad:
                        variants.append(("computed", np.asarray(r_), np.asarray(c_), np.asarray(sz)))
                    variants.append(("constructed", np.argsort(rp), np.argsort(cp), np.array(comp)))
                    if ez and clean_perm is not None:
                        # permutation generated from the matrix with the same non-zeros but no stored
                        # zeros, reused for this one
                        variants.append(("reused", *clean_perm))
                    if sz is not None and not bad:
                        # the very object the permutation was generated from
                        variants.append(("same-object", np.asarray(r_), np.asarray(c_), np.asarray(sz)))
                    for vname, vr, vc, vs in variants:
                        if vname != "same-object":
                            A = to_sparse(A_dense, stored, fmt, order)
                        else:
                            A = A_gen
                        vs64 = vs.astype(np.int64)
                        before = (digest(A), digest(vr), digest(vc), digest(vs64))
                        try:
                            if first:
                                inv = mo.invert_permuted_block_diag_matrix(A, vr, vc, vs64)
                                first = False
                            else:
                                with _MemoNjit(mo):
                                    inv = mo.invert_permuted_block_diag_matrix(A, vr, vc, vs64)
                            bad = None
                            if not sps.issparse(inv):
                                bad = "result is not sparse"
                            else:
                                got = inv.toarray()
                                if not _close(got, exp):
                                    bad = "differs from numpy.linalg.inv by %.3g" % (float(np.max(np.abs(got - exp))) if got.shape == exp.shape else np.inf)
                                elif (digest(A), digest(vr), digest(vc), digest(vs64)) != before:
                                    bad = "an argument was modified (storage digest changed)"
                        except Exception as e:  # noqa: BLE001
                            bad = "raised " + repr(e)[:300]
                        cls = f"invert_permuted/{vname}/{fmt}/" + ("ez" if ez else "nz")
                        if bad:
                            rec.bad("invert_permuted/" + vname + tagx, "invert_permuted_block_diag_matrix: " + bad,
                                    permutation=vname, row_permutation=vr.tolist(), col_permutation=vc.tolist(),
                                    block_sizes=vs.tolist(), **det)
                            cls = "VIOLATION"
                        out.ev(cls, key)
    out.samples.append({"blocks": comp, "rows": rows[:2], "cols": case["cols"]})


def run_case(case) -> Outcome:
    out = Outcome()
    if case["kind"] == "invert":
        run_invert(case, out)
    else:
        run_permuted(case, out)
    out.extra.pop("max_abs_error_e-18", None)
    return out


def known_finding(case, viol):
    # The stored-zeros defect (tag invert_permuted/computed/explicit-zeros) is fixed in /repo
    # (3207d0e7a); nothing is masked any more.
    return None
