"""C47 — fracture networks (csv) and named data arrays (txt) round-trip through files.

Engine E. 2-d: every set of <= n segments between points of the lattice {0,1,2}^2 scaled by
1, 0.1 and 1/3 is turned into a ``FractureNetwork2d``, written with ``to_csv`` (with and
without header line) and read back with ``network_2d_from_csv``. 3-d: every set of <= n
planar polygons of a fixed alphabet (rectangles in the three coordinate planes and a
diagonal plane, triangles, a pentagon; different start vertices and orientations), same
scales, with and without a domain line. txt: every choice of 1-3 named arrays x 1-4 rows
x format assignment x value set through ``export_data_to_txt`` / ``read_data_from_txt``.

Oracle: the objects that were written. Coordinates are compared exactly (the csv writer
prints the shortest repr of a double, ``%.17e`` is exact, and values used with the lossy
default format ``%2.2e`` are built from three-digit decimal literals).
"""

from __future__ import annotations

import itertools
from pathlib import Path

import numpy as np

from mc.core import Outcome

PROPERTY = "C47"
LEVEL = "exploration"
RULE = (
    "one case = all networks whose first (smallest) fracture letter is fixed, for one scale / header / "
    "domain variant; or one (columns, rows) shape of the txt table with every format and value "
    "assignment. Non-trivial = a network of >= 2 fractures, or coordinates that are not terminating "
    "decimals, or a txt table with a single row or a single column or a lossy format; distinct by "
    "the complete written object"
)
ASSUMPTIONS = [
    "2-d fractures are compared as a multiset of unordered segments with exact end point coordinates "
    "(the reader documents a renumbering of points; fracture tags are not part of the csv format and not compared); 3-d fractures as a multiset of vertex cycles up to "
    "rotation and reversal of the cycle",
    "txt names contain no white space and do not start with '#'; arrays are 1-d; with the default format "
    "'%2.2e' only values with <= 3 significant digits are letters (documented lossy choice of the caller)",
    "the csv domain line is compared as well when one was written (it is part of the documented format)",
    "to_csv(domain=None) is read with has_domain=False, to_csv(with_header=False) with skip_header=0",
    "every file is written twice (txt: first a longer table with other names) and the written objects must be unchanged",
]
BOUNDS = {
    "quick": "2-d: all sets of <= 2 of the 36 lattice segments x 3 scales x {header, no header}, plus all sets of <= 2 with "
             "tagged fractures (2 tag assignments); 3-d: all sets "
             "of <= 2 of 9 polygons x 3 scales x {domain, none} x {as is, translated to negative coordinates}; txt: 1-3 columns x 1-4 rows x 4 format "
             "assignments x 2 value sets x 2 name sets",
    "thorough": "2-d: all sets of <= 3 segments x 3 scales x {header, no header}, plus all sets of <= 2 with tagged fractures; 3-d: all sets of <= 3 of 9 "
                "polygons x 3 scales x {domain, none}; txt as quick plus 5 and 7 rows",
}
MIN_CLASSES = 8
CHUNK = 4

SCALES = [1.0, 0.1, 1.0 / 3.0]
PTS2 = [(i, j) for i in range(3) for j in range(3)]
SEGS2 = [(a, b) for a, b in itertools.combinations(range(9), 2)]  # 36

POLYS = [
    [(0, 0, 1), (2, 0, 1), (2, 2, 1), (0, 2, 1)],          # rectangle z = 1
    [(0, 1, 0), (0, 1, 2), (2, 1, 2), (2, 1, 0)],          # rectangle y = 1, other orientation
    [(1, 2, 2), (1, 0, 2), (1, 0, 0), (1, 2, 0)],          # rectangle x = 1, other start vertex
    [(0, 0, 0), (2, 2, 0), (2, 2, 2), (0, 0, 2)],          # rectangle in the plane x = y
    [(0, 0, 0), (2, 0, 0), (0, 2, 0)],                     # triangle z = 0
    [(0, 0, 0), (2, 1, 0), (1, 2, 2)],                     # triangle in general position
    [(1, 0, 0), (1, 0, 2), (1, 2, 0)],                     # triangle x = 1, clockwise
    [(0, 0, 2), (2, 0, 2), (2, 1, 2), (1, 2, 2), (0, 1, 2)],  # pentagon z = 2
    [(0, 2, 0), (2, 0, 0), (2, 0, 1), (0, 2, 1)],          # rectangle in the plane x + y = 2
]

NAMES = [["p", "T_2", "flux.x"], ["temperature", "s", "x1"]]
# three-significant-digit literals (exact under '%2.2e') and arbitrary doubles (exact under '%.17e')
VALS_SHORT = ["1.5", "-0.25", "300", "1.23e-5", "0", "-4.56e7", "9.99"]
VALS_LONG = [1.0 / 3.0, -np.pi, 1e-300, 0.1, -2.0 ** -40, 123456789.123456789, 5e-324]
ROWS = {"quick": [1, 2, 3, 4], "thorough": [1, 2, 3, 4, 5, 7]}


def cases(tier):
    out = []
    n2 = {"quick": 2, "thorough": 3}[tier]
    n3 = {"quick": 2, "thorough": 3}[tier]
    for s in range(len(SCALES)):
        for hdr in (True, False):
            out.append({"kind": "2d", "scale": s, "header": hdr, "first": None, "maxn": 0})
            for i in range(len(SEGS2)):
                out.append({"kind": "2d", "scale": s, "header": hdr, "first": i, "maxn": n2})
                # the same networks with tagged fractures (two different tag assignments); scale 1 only
                if s == 0 and hdr:
                    for tagmode in (1, 2):
                        out.append({"kind": "2d", "scale": s, "header": hdr, "first": i, "maxn": 2, "tagmode": tagmode})
        for dom in (True, False):
            out.append({"kind": "3d", "scale": s, "domain": dom, "first": None, "maxn": 0})
            for i in range(len(POLYS)):
                out.append({"kind": "3d", "scale": s, "domain": dom, "first": i, "maxn": n3})
                # the same polygons translated so that coordinates (also the very first entry of a
                # line) are negative
                out.append({"kind": "3d", "scale": s, "domain": dom, "first": i, "maxn": 2, "shift": [-1.0, -0.5, -1.5]})
    for c in (1, 2, 3):
        for r in ROWS[tier]:
            out.append({"kind": "txt", "cols": c, "rows": r})
    return out


def _subsets_with_first(n_letters, first, maxn):
    if first is None:
        yield ()
        return
    rest = range(first + 1, n_letters)
    for k in range(0, maxn):
        for tail in itertools.combinations(rest, k):
            yield (first,) + tail


# ----------------------------------------------------------------------------- 2-d


def _canon2(frs):
    segs = []
    for p in frs:
        p = np.asarray(p)
        if p.shape != (2, 2):
            return ("malformed", p.shape)
        a, b = tuple(map(float, p[:, 0])), tuple(map(float, p[:, 1]))
        segs.append(tuple(sorted((a, b))))
    return sorted(segs)


def _run_2d(case, out):
    import porepy as pp
    from porepy.fracs import fracture_importer as fi

    sc = SCALES[case["scale"]]
    hdr = case["header"]
    fname = Path(f"net2d_{case['scale']}_{int(hdr)}_{case['first']}_{case.get('tagmode', 0)}.csv")
    tagmode = case.get("tagmode", 0)
    for sub in _subsets_with_first(len(SEGS2), case["first"], case["maxn"]):
        segs = []
        for k, si in enumerate(sub):
            a, b = SEGS2[si]
            if (k + si) % 2:  # alternate the orientation
                a, b = b, a
            segs.append((tuple(sc * c for c in PTS2[a]), tuple(sc * c for c in PTS2[b])))
        # tags per fracture (they become extra rows of the network's edge array; the csv format has no tag
        # columns, so only the segments are compared): none / one tag / two tags, values that are also valid,
        # too large and negative as point indices
        tagsets = [None, [1], [0, 7], [-1], [3, 0, 2]]
        tags = [tagsets[(tagmode * (k + 1) + si) % len(tagsets)] if tagmode else None for k, si in enumerate(sub)]
        fracs = [pp.LineFracture(np.array([[a[0], b[0]], [a[1], b[1]]], dtype=float), tags=t)
                 if t is not None else pp.LineFracture(np.array([[a[0], b[0]], [a[1], b[1]]], dtype=float))
                 for (a, b), t in zip(segs, tags)]
        desc = {"segments": segs, "with_header": hdr, "tags": tags}
        try:
            if fracs:
                net = pp.create_fracture_network(fracs)
            else:
                net = pp.create_fracture_network([], pp.Domain({"xmin": 0, "xmax": 1, "ymin": 0, "ymax": 1}))
            written = _canon2([f.pts for f in net.fractures])
            if written != _canon2([np.array(s).T for s in segs]):
                raise RuntimeError("network constructor changed the fractures (harness assumption)")
            net.to_csv(fname, with_header=hdr)
            net.to_csv(fname, with_header=hdr)  # written twice: the second call replaces the file
            if _canon2([f.pts for f in net.fractures]) != written:
                out.violate("to_csv modified the network", **desc)
                out.ev("VIOLATION")
                continue
            back = fi.network_2d_from_csv(fname) if hdr else fi.network_2d_from_csv(fname, skip_header=0)
            got = _canon2([f.pts for f in back.fractures])
        except RuntimeError:
            raise
        except Exception as e:
            out.violate("2-d csv round trip raised", error=repr(e), **desc)
            out.ev("VIOLATION")
            continue
        pts = {p for s in segs for p in s}
        shared = len(pts) < 2 * len(segs)
        nontriv = len(segs) >= 2 or (case["scale"] == 2 and len(segs) == 1)
        key = ("2d", case["scale"], hdr, sub) if nontriv else None
        if got != written:
            out.violate("2-d network read back differs from the one written", written=written, read=got, **desc)
            out.ev("VIOLATION")
            continue
        ntag = max([len(t) for t in tags if t is not None], default=0)
        out.ev(f"2d/n{len(segs)}/{'shared' if shared else 'disjoint'}/scale{case['scale']}/{'hdr' if hdr else 'nohdr'}"
               f"/tags{ntag}", key + (tagmode,) if key is not None else (("2d-tag", case["scale"], hdr, sub, tagmode) if ntag else None))
        if len(segs) >= 2 and shared and not out.samples:
            out.samples.append({"kind": "2d", **desc, "file": fname.read_text()})
    if fname.exists():
        fname.unlink()


# ----------------------------------------------------------------------------- 3-d


def _canon_cycle(p):
    p = np.asarray(p)
    if p.ndim != 2 or p.shape[0] != 3:
        return ("malformed", p.shape)
    verts = [tuple(map(float, p[:, k])) for k in range(p.shape[1])]
    n = len(verts)
    cands = []
    for seq in (verts, verts[::-1]):
        for r in range(n):
            cands.append(tuple(seq[r:] + seq[:r]))
    return min(cands)


def _canon3(frs):
    return sorted(_canon_cycle(p) for p in frs)


def _run_3d(case, out):
    import porepy as pp
    from porepy.fracs import fracture_importer as fi

    sc = SCALES[case["scale"]]
    with_dom = case["domain"]
    shift = case.get("shift", [0.0, 0.0, 0.0])
    fname = Path(f"net3d_{case['scale']}_{int(with_dom)}_{case['first']}_{int(any(shift))}.csv")
    box = {"xmin": -1.0 * sc, "ymin": -0.5, "zmin": -2.0, "xmax": 3.0, "ymax": 2.5 * sc, "zmax": 7.0 / 3.0}
    for sub in _subsets_with_first(len(POLYS), case["first"], case["maxn"]):
        polys = [[tuple(sc * (c + t) for c, t in zip(v, shift)) for v in POLYS[i]] for i in sub]
        desc = {"polygons": polys, "domain": box if with_dom else None}
        try:
            fracs = [pp.PlaneFracture(np.array(p, dtype=float).T) for p in polys]
            dom = pp.Domain(dict(box))
            net = pp.create_fracture_network(fracs, dom) if (fracs or with_dom) else None
            if net is None:
                out.ev("3d/skipped:empty-without-domain")
                continue
            if not isinstance(net, pp.fracs.fracture_network_3d.FractureNetwork3d):
                out.ev("3d/skipped:empty-network-is-not-3d")
                continue
            written = _canon3([f.pts for f in net.fractures])
            if written != _canon3([np.array(p).T for p in polys]):
                raise RuntimeError("network constructor changed the fractures (harness assumption)")
            if with_dom:
                net.to_csv(fname, domain=dom)
                back = fi.network_3d_from_csv(fname)
            else:
                net.to_csv(fname)
                back = fi.network_3d_from_csv(fname, has_domain=False)
            if _canon3([f.pts for f in net.fractures]) != written:
                out.violate("to_csv modified the network", **desc)
                out.ev("VIOLATION")
                continue
            got = _canon3([f.pts for f in back.fractures])
            got_box = None if back.domain is None else {k: float(v) for k, v in back.domain.bounding_box.items()}
        except RuntimeError:
            raise
        except Exception as e:
            out.violate("3-d csv round trip raised", error=repr(e), **desc)
            out.ev("VIOLATION")
            continue
        nontriv = len(polys) >= 2 or case["scale"] == 2
        key = ("3d", case["scale"], with_dom, sub, any(shift)) if nontriv else None
        if got != written:
            out.violate("3-d network read back differs from the one written", written=written, read=got, **desc)
            out.ev("VIOLATION")
            continue
        if with_dom and got_box != box:
            out.violate("domain line of the 3-d csv file is not restored", written=box, read=got_box, **desc)
            out.ev("VIOLATION")
            continue
        sizes = "+".join(str(len(p)) for p in polys) or "none"
        out.ev(f"3d/{sizes}/scale{case['scale']}/{'dom' if with_dom else 'nodom'}" + ('/neg' if any(shift) else ''), key)
        if len(polys) >= 2 and not out.samples:
            out.samples.append({"kind": "3d", **desc, "file": fname.read_text()})
    if fname.exists():
        fname.unlink()


# ----------------------------------------------------------------------------- txt


def _run_txt(case, out):
    from porepy.utils.txt_io import TxtData, export_data_to_txt, read_data_from_txt

    c, r = case["cols"], case["rows"]
    fname = Path(f"data_{c}_{r}.txt")
    fmt_assign = [("default",) * c, ("%.17e",) * c, ("%2.2e",) * c]
    if c > 1:
        fmt_assign.append(tuple("%.17e" if k % 2 else "default" for k in range(c)))
        fmt_assign.append(tuple("default" if k % 2 else "%.17e" for k in range(c)))
    for names_all in NAMES:
        for rot in range(c):
            names = [names_all[(rot + k) % 3] for k in range(c)]
            for fmts in fmt_assign:
                for vset in (0, 1):
                    for int_col in (False, True):
                        arrays = []
                        for k in range(c):
                            lossy = fmts[k] != "%.17e"
                            if int_col and k == 0:
                                arr = np.array([(7 * i + 3 * vset + 1) % 1000 for i in range(r)], dtype=np.int64)
                            elif lossy:
                                arr = np.array([float(VALS_SHORT[(i + 2 * k + 3 * vset) % len(VALS_SHORT)]) for i in range(r)])
                            else:
                                arr = np.array([VALS_LONG[(i + 2 * k + 3 * vset) % len(VALS_LONG)] for i in range(r)])
                            arrays.append(arr)
                        data = []
                        for nm, arr, f in zip(names, arrays, fmts):
                            data.append(TxtData(nm, arr.copy()) if f == "default" else TxtData(nm, arr.copy(), f))
                        desc = {"names": names, "arrays": [a.tolist() for a in arrays], "formats": list(fmts)}
                        try:
                            # the file is written twice: first a longer table with other values and names
                            first = [TxtData("old" + nm, np.arange(r + 2) + 10.0 * k) for k, nm in enumerate(names)]
                            export_data_to_txt(first, fname)
                            export_data_to_txt(data, fname)
                            if any(not np.array_equal(d.array, a) or d.array.dtype != a.dtype for d, a in zip(data, arrays)):
                                out.violate("export_data_to_txt modified the arrays it was given", **desc)
                                out.ev("VIOLATION")
                                continue
                            back = read_data_from_txt(fname)
                        except Exception as e:
                            out.violate("txt round trip raised", error=repr(e), **desc)
                            out.ev("VIOLATION")
                            continue
                        bad = None
                        if not isinstance(back, dict) or list(back.keys()) != names:
                            bad = ("names differ", list(back.keys()) if isinstance(back, dict) else repr(type(back)))
                        else:
                            for nm, arr in zip(names, arrays):
                                g = back[nm]
                                if not isinstance(g, np.ndarray) or g.shape != arr.shape:
                                    bad = (f"array '{nm}' comes back with shape {np.shape(g)} instead of {arr.shape}",
                                           np.asarray(g).tolist())
                                    break
                                if not np.array_equal(g, arr.astype(float)):
                                    bad = (f"values of '{nm}' differ", g.tolist())
                                    break
                        cls = f"txt/c{c}r{r}/" + ("mixed" if len(set(fmts)) > 1 else fmts[0].replace("%", ""))
                        if bad is not None:
                            out.violate("txt data read back differ from the data written: " + bad[0], read=bad[1],
                                        file=fname.read_text(), **desc)
                            out.ev("VIOLATION")
                            continue
                        nontriv = c == 1 or r == 1 or any(f != "%.17e" for f in fmts)
                        out.ev(cls, (tuple(names), r, fmts, vset, int_col) if nontriv else None)
                        if not out.samples and c == 2 and r == 2:
                            out.samples.append({"kind": "txt", **desc, "file": fname.read_text()})
    if fname.exists():
        fname.unlink()


def run_case(case) -> Outcome:
    out = Outcome()
    {"2d": _run_2d, "3d": _run_3d, "txt": _run_txt}[case["kind"]](case, out)
    return out


def known_finding(case, viol):
    return None
