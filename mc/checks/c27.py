"""C27 — global projection operators (SubdomainProjections, MortarProjections,
BoundaryProjection) are consistent permutations.

Engine E: for a fixed family of small md-grids, *every* ordered sub-list (all subsets of
bounded length, all permutations, and the empty list) of subdomains is used as the grid
list of the operator; inside, every ordered sub-list of those grids (restriction /
prolongation targets) resp. every ordered sub-list of interfaces is evaluated for
vector dimensions 1..3 and compared exactly with a dense matrix assembled from the list
order alone (offsets = cumulative entity counts in list order; per-interface blocks taken
from ``MortarGrid.*`` / ``BoundaryGrid.projection``).
"""

from __future__ import annotations

import itertools

import numpy as np

from mc.core import Outcome

PROPERTY = "C27"
LEVEL = "exploration"
RULE = (
    "md-grids {single2d, frac2d, x2d, t2d, frac3d, simplex2d, nonmatching2d (non-nested mortar and secondary), "
    "mortarfine2d / mortarcoarse2d (mortar nested-refined / coarsened w.r.t. both neighbours), secfine2d / seccoarse2d, "
    "x2d_mortarfine (one of four interfaces refined), mockchain(codim 1+2), mockwells(codim 2)}; every MortarProjections "
    "evaluation builds three operator objects and requests all eight projections twice on each, in the orders "
    "int-first / avg-first / reversed; "
    "one case = (md-grid, operator kind, ordered list L of subdomains given to the operator); "
    "evaluations = (L, inner ordered list S of grids of L | ordered list I of interfaces, nd in 1..3); "
    "non-trivial = L or the inner list is not the md-grid order of all grids (permuted or partial); "
    "distinct by (md-grid, kind, L, inner list, nd)"
)
ASSUMPTIONS = [
    "global vectors are the concatenation of the local vectors in list order; a local vector of "
    "dimension nd stores the nd components of one entity contiguously (layout of MortarGrid.*(nd))",
    "primary/secondary subdomain of an interface is taken from mdg.interface_to_subdomain_pair (C24)",
    "MortarProjections with interfaces of different codimension raises ValueError by documentation; "
    "counted as rejected, not as violation",
    "exact comparison (all entries are copies of 0/1 or of the per-interface matrices)",
]
BOUNDS = {
    "quick": "subdomain lists: all ordered sub-lists of length <= 3 (plus empty, full md order, reversed); "
    "inner target lists <= 3; interface lists <= 2 (simplex2d: <= 1) plus empty/full/reversed; nd in {1,2,3}; "
    "14 md-grids with 1-4 subdomains, 0-4 interfaces; 3 request orders x 2 requests per operator object",
    "thorough": "subdomain lists <= 4, inner lists <= 3, interface lists <= 3 (simplex2d: <= 2); nd in {1,2,3}",
}
MIN_CLASSES = 6
CHUNK = 8

MDGS = ["single2d", "frac2d", "x2d", "t2d", "frac3d", "simplex2d", "nonmatching2d", "mortarfine2d", "mortarcoarse2d",
        "secfine2d", "seccoarse2d", "x2d_mortarfine", "mockchain", "mockwells"]
NSUB = {"single2d": 1, "frac2d": 2, "x2d": 4, "t2d": 4, "frac3d": 2, "simplex2d": 4, "nonmatching2d": 2, "mortarfine2d": 2,
        "mortarcoarse2d": 2, "secfine2d": 2, "seccoarse2d": 2, "x2d_mortarfine": 4, "mockchain": 4, "mockwells": 4}
KINDS = ["sub", "mortar", "bnd"]


def ordered_sublists(n, maxlen):
    out = [[]]
    for k in range(1, min(n, maxlen) + 1):
        for comb in itertools.permutations(range(n), k):
            out.append(list(comb))
    for full in (list(range(n)), list(range(n))[::-1]):
        if full not in out:
            out.append(full)
    return out


def cases(tier):
    maxlen = 3 if tier == "quick" else 4
    out = []
    for name in MDGS:
        for kind in KINDS:
            maxI = (2 if tier == "quick" else 3)
            if name in ("simplex2d", "t2d"):
                maxI -= 1
            for L in ordered_sublists(NSUB[name], maxlen):
                c = {"mdg": name, "kind": kind, "L": L, "maxlen": maxlen}
                if kind == "mortar":
                    c["maxI"] = maxI
                out.append(c)
    return out


_CACHE: dict = {}
_BLOCKS: dict = {}


def _mdg(name):
    if name not in _CACHE:
        from mc.oracles.grpH_mdgs import build

        mdg = build(name)
        if len(mdg.subdomains()) != NSUB[name]:
            raise RuntimeError(f"harness: md-grid {name} has {len(mdg.subdomains())} subdomains")
        _CACHE[name] = mdg
    return _CACHE[name]


def _mdg_digest(mdg):
    """Bitwise digest of the interface projection matrices, boundary projections and grid
    sizes (purity oracle: building / querying global operators must not change them)."""
    import hashlib

    h = hashlib.blake2b(digest_size=12)
    for sd in mdg.subdomains():
        h.update(repr((sd.dim, sd.num_cells, sd.num_faces)).encode())
        h.update(sd.tags["domain_boundary_faces"].tobytes())
    for intf in mdg.interfaces():
        for nm in ("_primary_to_mortar_int", "_primary_to_mortar_avg", "_secondary_to_mortar_int",
                   "_secondary_to_mortar_avg", "_mortar_to_primary_int", "_mortar_to_primary_avg",
                   "_mortar_to_secondary_int", "_mortar_to_secondary_avg"):
            M = getattr(intf, nm)
            h.update(repr((nm, M.format, M.shape)).encode())
            h.update(M.data.tobytes() + M.indices.tobytes() + M.indptr.tobytes())
    for bg in mdg.boundaries():
        M = bg._projections
        h.update(M.data.tobytes() + M.indices.tobytes() + M.indptr.tobytes())
    return h.hexdigest()


def _dense(x):
    m = getattr(x, "_mat", x)
    return np.asarray(m.todense()) if hasattr(m, "todense") else np.asarray(m)


def _offsets(counts):
    return np.concatenate(([0], np.cumsum(counts))).astype(int)


def _prolongation(countL, posS, nd):
    """Dense prolongation from the grids at positions posS (in that order) into the list
    with entity counts countL."""
    offL = _offsets(countL)
    cntS = [countL[p] for p in posS]
    offS = _offsets(cntS)
    M = np.zeros((nd * offL[-1], nd * offS[-1]))
    for j, p in enumerate(posS):
        n = nd * countL[p]
        M[nd * offL[p] + np.arange(n), nd * offS[j] + np.arange(n)] = 1.0
    return M


def _same(a, b):
    return a.shape == b.shape and np.array_equal(a, b)


def _shape_of(L, n):
    if len(L) == 0:
        return "empty"
    if L == list(range(n)):
        return "md-order"
    if len(L) == n:
        return "permuted"
    return "partial" if L == sorted(L) else "partial-permuted"


def run_case(case) -> Outcome:
    import porepy as pp

    out = Outcome()
    name, kind, Lpos, maxlen = case["mdg"], case["kind"], list(case["L"]), case["maxlen"]
    mdg = _mdg(name)
    sds = mdg.subdomains()
    intfs = mdg.interfaces()
    L = [sds[i] for i in Lpos]
    shapeL = _shape_of(Lpos, len(sds))
    nc = [g.num_cells for g in L]
    nf = [g.num_faces for g in L]

    def viol(what, **kw):
        out.violate(what, mdg=name, L=Lpos, **kw)

    if kind == "sub":
        inner = ordered_sublists(len(L), min(maxlen, 3))
        for nd in (1, 2, 3):
            try:
                proj = pp.ad.SubdomainProjections(subdomains=L, dim=nd)
            except Exception as e:
                viol("SubdomainProjections raised", nd=nd, error=repr(e))
                out.ev("VIOLATION")
                continue
            for Spos in inner:
                S = [L[j] for j in Spos]
                bad = None
                try:
                    for ent, cnt, fr, fp in (("cell", nc, proj.cell_restriction, proj.cell_prolongation),
                                             ("face", nf, proj.face_restriction, proj.face_prolongation)):
                        R, Pm = _dense(fr(S)), _dense(fp(S))
                        E = _prolongation(cnt, Spos, nd)
                        if not _same(Pm, E):
                            bad = f"{ent}_prolongation differs from list-order placement"
                        elif not _same(R, E.T):
                            bad = f"{ent}_restriction differs from list-order placement"
                        elif not _same(R @ Pm, np.eye(E.shape[1])):
                            bad = f"{ent} restriction @ prolongation is not the identity"
                        if bad:
                            break
                    if bad is None and Spos == list(range(len(L))) and len(L) > 0:
                        for ent, cnt, fp in (("cell", nc, proj.cell_prolongation), ("face", nf, proj.face_prolongation)):
                            stacked = np.hstack([_dense(fp([g])) for g in L])
                            if not _same(stacked, np.eye(nd * int(np.sum(cnt)))):
                                bad = f"stacked single-grid {ent} prolongations are not the identity permutation"
                except Exception as e:
                    bad = f"raised {e!r}"
                shapeS = _shape_of(Spos, len(L))
                nontriv = shapeL not in ("md-order",) or shapeS not in ("md-order",)
                if bad:
                    viol("SubdomainProjections: " + bad, S=Spos, nd=nd)
                    out.ev("VIOLATION")
                else:
                    out.ev(f"sub/L:{shapeL}/S:{shapeS}/nd{nd}", (name, "s", tuple(Lpos), tuple(Spos), nd) if nontriv else None)
        if not out.samples:
            out.samples.append({"mdg": name, "kind": kind, "L": Lpos, "inner_lists": len(inner)})
        return out

    if kind == "bnd":
        for nd in (1, 2, 3):
            bad = None
            try:
                bp = pp.ad.BoundaryProjection(mdg, L, nd)
                s2b, b2s = _dense(bp.subdomain_to_boundary), _dense(bp.boundary_to_subdomain)
                offF = _offsets(nf)
                rows = []
                for p, g in enumerate(L):
                    if g.dim == 0:
                        continue
                    bfaces = np.where(g.tags["domain_boundary_faces"])[0]
                    bg = mdg.subdomain_to_boundary_grid(g)
                    if bg is None or bg.num_cells != bfaces.size:
                        raise RuntimeError("harness: boundary grid does not match the tags")
                    for f in bfaces:
                        for k in range(nd):
                            rows.append(nd * offF[p] + nd * f + k)
                E = np.zeros((len(rows), nd * offF[-1]))
                E[np.arange(len(rows)), rows] = 1.0
                if not _same(s2b, E):
                    bad = "subdomain_to_boundary differs from list-order placement of the boundary faces"
                elif not _same(b2s, E.T):
                    bad = "boundary_to_subdomain is not the transpose"
                elif not _same(s2b @ b2s, np.eye(len(rows))):
                    bad = "subdomain_to_boundary @ boundary_to_subdomain is not the identity"
            except Exception as e:
                bad = f"raised {e!r}"
            if bad:
                viol("BoundaryProjection: " + bad, nd=nd)
                out.ev("VIOLATION")
            else:
                has0 = any(g.dim == 0 for g in L)
                out.ev(f"bnd/L:{shapeL}/nd{nd}" + ("/with0d" if has0 else ""),
                       (name, "b", tuple(Lpos), nd) if shapeL != "md-order" else None)
        return out

    # kind == "mortar"
    PROJ = [
        ("mortar_to_primary_int", False, True), ("mortar_to_primary_avg", False, True),
        ("primary_to_mortar_int", True, True), ("primary_to_mortar_avg", True, True),
        ("mortar_to_secondary_int", False, False), ("mortar_to_secondary_avg", False, False),
        ("secondary_to_mortar_int", True, False), ("secondary_to_mortar_avg", True, False),
    ]
    # request orders on one operator object: extensive first / intensive first / reversed
    ORDERS = [("int-first", [0, 1, 2, 3, 4, 5, 6, 7]), ("avg-first", [1, 0, 3, 2, 5, 4, 7, 6]),
              ("reversed", [7, 6, 5, 4, 3, 2, 1, 0])]
    pos_of = {id(g): p for p, g in enumerate(L)}
    offC, offF = _offsets(nc), _offsets(nf)
    pure0 = _mdg_digest(mdg)
    for Ipos in ordered_sublists(len(intfs), case["maxI"]):
        I = [intfs[j] for j in Ipos]
        codims = sorted({m.codim for m in I})
        shapeI = _shape_of(Ipos, len(intfs))
        nm = [m.num_cells for m in I]
        offM = _offsets(nm)
        for nd in (1, 2, 3):
            bad = None
            cls_extra = ""
            conf = "conf"
            try:
                # expected matrices from the list order and the per-interface blocks only
                EXP = {}
                for pname, to_mortar, is_primary in PROJ:
                    # (an empty interface list has no codimension: the operator sizes the
                    # primary side by faces)
                    use_faces = is_primary and (codims == [1] or not I)
                    cnt, off = (nf, offF) if use_faces else (nc, offC)
                    E = np.zeros((nd * off[-1], nd * offM[-1]))
                    for j, m in enumerate(I):
                        prim, sec = mdg.interface_to_subdomain_pair(m)
                        g = prim if is_primary else sec
                        ck = (name, id(m), pname, nd)
                        if ck not in _BLOCKS:
                            _BLOCKS[ck] = _dense(getattr(m, pname)(nd))
                        loc = _BLOCKS[ck]
                        if np.any((loc != 0) & (np.abs(loc - 1.0) > 1e-9)):
                            conf = "nonconf"
                        if id(g) not in pos_of:
                            continue
                        p = pos_of[id(g)]
                        if to_mortar:
                            loc = loc.T
                        # loc: (nd * entities of g) x (nd * mortar cells)
                        if len(codims) == 1 and loc.shape != (nd * cnt[p], nd * nm[j]):
                            raise RuntimeError(f"harness: local block of {pname} has shape {loc.shape}")
                        if len(codims) == 1:
                            E[nd * off[p]: nd * off[p + 1], nd * offM[j]: nd * offM[j + 1]] = loc
                    EXP[pname] = E.T if to_mortar else E
                # one fresh operator object per request order; on each object all eight
                # projections are requested, then requested again (shared caches)
                for oname, order in ORDERS:
                    mp = pp.ad.MortarProjections(mdg, L, I, nd)
                    for rnd in ("first", "repeated"):
                        for k in order:
                            pname = PROJ[k][0]
                            try:
                                got = _dense(getattr(mp, pname)())
                            except ValueError as e:
                                if len(codims) > 1 and "same codimension" in str(e):
                                    cls_extra = "rejected:mixed-codim"
                                    break
                                raise
                            if not _same(got, EXP[pname]):
                                bad = (f"{pname} differs from the per-interface blocks placed at list-order "
                                       f"offsets (request order '{oname}', {rnd} request on the same object)")
                                break
                        if bad or cls_extra:
                            break
                    if bad or cls_extra:
                        break
                if bad is None and not cls_extra:
                    sg = _dense(mp.sign_of_mortar_sides())
                    E = np.zeros((nd * offM[-1], nd * offM[-1]))
                    for j, m in enumerate(I):
                        E[nd * offM[j]: nd * offM[j + 1], nd * offM[j]: nd * offM[j + 1]] = _dense(m.sign_of_mortar_sides(nd))
                    if len(I) > 0 and not _same(sg, E):
                        bad = "sign_of_mortar_sides differs from the per-interface blocks"
            except Exception as e:
                bad = f"raised {e!r}"
            if bad:
                absent = codims == [2] and any(
                    id(mdg.interface_to_subdomain_pair(m)[0]) not in pos_of for m in I)
                viol("MortarProjections: " + bad, I=Ipos, nd=nd, absent_primary_codim2=bool(absent))
                out.ev("VIOLATION")
            elif cls_extra:
                out.ev("mortar/" + cls_extra)
            else:
                nontriv = shapeL != "md-order" or shapeI != "md-order"
                out.ev(f"mortar/L:{shapeL}/I:{shapeI}/codim{codims}/{conf}",
                       (name, "m", tuple(Lpos), tuple(Ipos), nd) if nontriv else None)
    if _mdg_digest(mdg) != pure0:
        viol("MortarProjections modified the md-grid / interface matrices it was given")
        out.ev("VIOLATION")
    if not out.samples and Lpos:
        out.samples.append({"mdg": name, "kind": kind, "L": Lpos, "interfaces": len(intfs)})
    return out


def known_finding(case, viol):
    # codim-2 interface whose primary subdomain is not in the subdomain list: the primary
    # side is sized by faces instead of cells (or sps.bmat raises when mixed with a
    # present one)
    w = viol.get("what", "")
    if viol.get("absent_primary_codim2") and ("primary" in w or "incompatible dimensions" in w):
        return "C27-codim2-absent-primary"
    return None
