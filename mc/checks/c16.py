"""C16 — TPSA is invariant under rigid translations.

Engine E: bounded-exhaustive enumeration of (grid, Lame pair, Dirichlet/Neumann
assignment); for every case the real ``Tpsa.discretize`` is run, its ``stress`` /
``bound_stress`` matrices are applied to the unit translations with consistent data
(Dirichlet value = the translation, Neumann traction = 0) and the three-field block
system assembled in the harness (``mc.oracles.grpF_tpsa``) is solved densely.
"""

from __future__ import annotations

import numpy as np

from mc.core import Outcome
from mc.oracles import grpF_fields as F
from mc.oracles import grpF_grids as G
from mc.oracles import grpF_tpsa as T

PROPERTY = "C16"
LEVEL = "exploration"
RULE = (
    "every (grid, (mu,lambda), Dirichlet/Neumann assignment) of the declared alphabet is "
    "discretized once with the real Tpsa; one evaluation = one unit translation e_i: stress "
    "on every face, and (if at least one Dirichlet face and lambda > 0) the solution of the "
    "harness-assembled block system; non-trivial = grid not K-orthogonal (perturbed, simplex, "
    "affine image) or at least one Neumann face; distinct by (grid, mu, lambda, Neumann set, i); "
    "also grids whose boundary faces carry the tip / fracture tag instead of the domain-boundary "
    "tag (immersed grids), all or every second boundary face; "
    "two extra cases validate the harness block layout against closed-form expansion / shear "
    "solutions on Cartesian grids (failure = harness error, not a verdict); scale axis "
    "{1e-3, 1e3} on one grid per family, where the discretization is also repeated on the SAME "
    "grid and data dictionary; grid, stiffness and bc arrays are digested before / after (purity); "
    "valid NON-CONVEX grids: 5 dart-quadrilateral grids (positive volumes adding up to the domain "
    "measure, closed and non-self-intersecting cells, centroid outside an own face); sequences: ONE "
    "Tpsa object used for two grids in a row (same sizes / different topology; same topology / "
    "different geometry; the same grid object moved); 4 prism grids (3- and 4-node faces) side-wise "
    "+ <=1 flips"
)
ASSUMPTIONS = [
    "constant Lame parameters; every boundary face entirely Dirichlet (value = translation) "
    "or entirely Neumann (zero traction); Robin conditions are not part of the alphabet "
    "(the statement does not define consistent Robin data for TPSA)",
    "block system assembled as in the Tpsa class docstring and the shipped momentum / "
    "angular-momentum / solid-mass equations: A = div@face_discr - blockdiag(0,|c|/mu,|c|/lambda); "
    "layout validated in-run against u=x (p=lambda*d, r=0) and simple shear (r=-mu*curl u, p=0)",
    "the solve is skipped for all-Neumann assignments (singular) and for lambda = 0 (1/lambda "
    "accumulation undefined; the shipped model rejects it): stress-only evaluation there; when "
    "the assembled matrix is numerically singular (sigma_min <= 1e-10 sigma_max, e.g. a single "
    "Dirichlet face leaves a discrete rotation mode free) only 'the translation satisfies the "
    "system' (zero residual) is required, otherwise additionally that the solve returns it",
    "tolerances: stress 1e-9*2mu*max|n_f|/h_min; displacement 1e-9; rotation 1e-9*mu/h_min; "
    "solid pressure 1e-9*max(mu,lambda)/h_min; residual 1e-9*max|n_f|*max(2mu/h_min,1) "
    "(measured floor 1e-14 on these grids)",
]
BOUNDS = {
    "quick": "2-d: C(2,2), T(2,2) x 3 offsets of the interior node x all 256 assignments; C(3,2), T(3,2) @shear "
    "side-wise + <=1 flips; 3-d: Tet(1,1,1)~, C(2,2,2)@shear, C(2,2,2)~np (non-planar faces) "
    "side-wise (64) + <=1 flips; (mu,lambda) in {(1,1),(1,10),(3,0.5)} plus (3,0) stress-only; "
    "scale in {1e-3,1e3} with repeated discretize on C(2,2)~, T(2,2)~, Tet(1,1,1)~, C(2,2,2)@shear "
    "side-wise, (mu,lambda)=(1,10)",
    "thorough": "2-d: C(2,2), T(2,2) x 9 offsets x 256 assignments; C(3,2), T(3,2) @id/@shear/@skew "
    "all 1024 assignments; C(3,2) x 81 offset pairs side-wise; 3-d: Tet(1,1,1) x 27 offsets, "
    "C(2,2,2) @id/@shear/@skew, C(2,2,2)~np x 26 offsets of the centre node, Tet(2,1,1)@skew, "
    "Tet(2,2,2)~: side-wise (64) + <=2 flips (<=1 for C(2,2,2)~np and Tet(2,2,2)~)",
}
MIN_CLASSES = 6
CHUNK = 4
TOL = 1e-9
DARTS = [  # valid non-convex (dart) quadrilaterals: an interior node moved past a neighbour's diagonal
    {"kind": "cart", "n": [3, 3], "set": [[5, [0.05, 0.07]]]},
    {"kind": "cart", "n": [3, 3], "set": [[5, [0.05, 0.07]]], "map": "shear"},
    {"kind": "cart", "n": [2, 2], "set": [[4, [0.9, 0.88]]]},
    {"kind": "cart", "n": [3, 2], "set": [[5, [0.06, 0.1]]]},
    {"kind": "cart", "n": [3, 3], "set": [[5, [0.05, 0.07]], [10, [0.95, 0.93]]]},
]
PRISMS = [  # extruded triangle grids: cells with triangular AND quadrilateral faces
    {"kind": "prism", "n": [2, 2], "z": [0, 0.4, 1]},
    {"kind": "prism", "n": [2, 1], "z": [0, 0.4, 1]},
    {"kind": "prism", "n": [2, 2], "z": [0, 0.4, 1], "pert": [[4, [1, -1]]]},
    {"kind": "prism", "n": [2, 1], "z": [0, 0.4, 1], "map": "shear"},
]
MULAM = [(1.0, 1.0), (1.0, 10.0), (3.0, 0.5), (3.0, 0.0)]


def _c(spec, assign):
    return [{"grid": spec, "mu": mu, "lam": lam, "assign": assign} for mu, lam in MULAM]


def _masks(spec, nb, per=128):
    out = []
    for lo in range(0, 2**nb, per):
        out += _c(spec, {"mode": "masks", "lo": lo, "hi": min(lo + per, 2**nb)})
    return out


def _sides_flips(spec, k, nparts=1):
    out = _c(spec, {"mode": "sides", "part": 0, "nparts": 1})
    for p in range(nparts):
        out += _c(spec, {"mode": "indep", "max_size": k, "part": p, "nparts": nparts})
    return out


def _scale_cases():
    fam = [{"kind": "cart", "n": [2, 2], "pert": [[4, [1, -1]]]}, {"kind": "tri", "n": [2, 2], "pert": [[4, [1, -1]]]},
           {"kind": "tet", "n": [1, 1, 1], "pert": [[7, [1, -1, 1]]]}, {"kind": "cart", "n": [2, 2, 2], "map": "shear"}]
    return [{"grid": dict(sp, scale=sc) if sc != 1.0 else dict(sp), "mu": 1.0, "lam": 10.0, "reuse": True,
             "assign": {"mode": "sides", "part": 0, "nparts": 1}} for sp in fam for sc in (1.0, 1e-3, 1e3)]


def cases(tier):
    out = [{"validate": 2}, {"validate": 3}] + _scale_cases()
    # valid non-convex cells (centroid on the outer side of an own face: negative projected
    # centre-to-face distance): side-wise + <=1 flips (thorough: <=2), all Lame pairs
    for sp in DARTS:
        out += _sides_flips(sp, 1 if tier == "quick" else 2)
    for sp in PRISMS:  # mixed face types
        out += _sides_flips(sp, 1)
    # grids whose boundary faces are tagged as tips / fracture faces (immersed grids)
    for sp in ({"kind": "cart", "n": [2, 2]}, {"kind": "tri", "n": [2, 2], "pert": [[4, [1, -1]]]},
               {"kind": "cart", "n": [2, 2, 2]}, {"kind": "tet", "n": [1, 1, 1], "pert": [[7, [1, -1, 1]]]}):
        for retag in ("tip-all", "tip-half", "frac-all", "frac-half"):
            out += [dict(c, retag=retag) for c in _sides_flips(sp, 0)]
    # ONE Tpsa object reused for two grids (same sizes / different topology; same topology /
    # different geometry; the same grid object moved)
    for kind, s1, s2 in G.SEQ_PAIRS_2D + G.SEQ_PAIRS_3D:
        out += [dict(c, seq=[kind, s1, s2]) for c in _c(s1, {"mode": "sides", "part": 0, "nparts": 1})]
    c22, t22 = {"kind": "cart", "n": [2, 2]}, {"kind": "tri", "n": [2, 2]}
    c32, t32 = {"kind": "cart", "n": [3, 2]}, {"kind": "tri", "n": [3, 2]}
    tet1 = {"kind": "tet", "n": [1, 1, 1]}
    c222 = {"kind": "cart", "n": [2, 2, 2]}
    quick = tier == "quick"
    offs = [[0, 0], [1, -1], [0, 1]] if quick else G.lattice(2)
    for base in (c22, t22):
        node = G.interior_nodes(base)[0]
        for o in offs:
            out += _masks(dict(base, pert=[[node, o]]) if any(o) else dict(base), 8)
    centre = G.interior_nodes(c222)[0]
    if quick:
        for base in (c32, t32):
            out += _sides_flips(dict(base, map="shear"), 1)
        out += _sides_flips(dict(tet1, pert=[[7, [1, -1, 1]]]), 1)
        out += _sides_flips(dict(c222, map="shear"), 1)
        out += _sides_flips(dict(c222, pert=[[centre, [1, -1, 1]]], nonplanar_ok=True), 1)
        return out
    for base in (c32, t32):
        for m in ("id", "shear", "skew"):
            out += _masks(dict(base, map=m) if m != "id" else dict(base), 10)
    n1, n2 = G.interior_nodes(c32)
    for o1 in G.lattice(2):
        for o2 in G.lattice(2):
            pert = [[n, o] for n, o in ((n1, o1), (n2, o2)) if any(o)]
            if pert:
                out += _c(dict(c32, pert=pert), {"mode": "sides", "part": 0, "nparts": 1})
    for o in G.lattice(3):
        out += _sides_flips(dict(tet1, pert=[[7, o]]) if any(o) else dict(tet1), 2)
    for m in ("id", "shear", "skew"):
        out += _sides_flips(dict(c222, map=m) if m != "id" else dict(c222), 2, nparts=2)
    for o in G.lattice(3, nonzero_only=True):
        out += _sides_flips(dict(c222, pert=[[centre, o]], nonplanar_ok=True), 1)
    out += _sides_flips({"kind": "tet", "n": [2, 1, 1], "map": "skew"}, 2)
    t222 = {"kind": "tet", "n": [2, 2, 2]}
    out += _sides_flips(dict(t222, pert=[[G.interior_nodes(t222)[0], [1, -1, 1]]]), 1)
    return out


def _gridclass(spec):
    s = spec["kind"]
    if spec.get("pert"):
        s += "~np" if spec.get("nonplanar_ok") else "~"
    if spec.get("set"):
        s += "!dart"
    if spec.get("map", "id") != "id":
        s += "@"
    return s


def run_case(case) -> Outcome:
    if "seq" not in case:
        return _run_single(case)
    # ONE Tpsa object for both grids of the pair
    out = Outcome()
    shared = {"kind": case["seq"][0], "step": 0}
    for spec in case["seq"][1:]:
        shared["step"] += 1
        out.merge(_run_single(dict(case, grid=spec), shared))
    return out


def _run_single(case, shared=None) -> Outcome:
    import porepy as pp

    out = Outcome()
    if "validate" in case:
        d = case["validate"]
        res = T.validate_layout(d)
        worst = max(v for r in res.values() for v in r.values())
        if not worst < 1e-10:
            # not a verdict on C16: the harness cannot vouch for its own block layout
            raise RuntimeError(f"TPSA block-layout validation failed in {d}-d: {res}")
        out.ev(f"{d}d/layout-validated")
        return out

    spec, mu, lam = case["grid"], case["mu"], case["lam"]
    g = G.get_grid(spec, shared)
    seq_disc = None
    if shared is not None:
        seq_disc = shared.setdefault("disc", pp.Tpsa(T.KW))
    d, nf, nc = g.dim, g.num_faces, g.num_cells
    rd = T.rot_dim(d)
    bf = G.boundary_faces(g)
    hmin = G.h_min(g)
    amax = float(np.linalg.norm(g.face_normals, axis=0).max())
    gname = G.name(spec)
    retag = case.get("retag")
    if retag:
        # the boundary faces of a grid immersed in a larger mixed-dimensional grid are not
        # domain-boundary faces: they carry the tip (or fracture) tag instead, exactly as
        # pp.meshing produces for an immersed fracture grid; the boundary condition is given
        # on them all the same
        if shared is not None:
            raise RuntimeError("retag is not combined with sequences")
        sel = bf if retag.endswith("all") else bf[::2]
        g.tags["domain_boundary_faces"][sel] = False
        g.tags["tip_faces" if retag.startswith("tip") else "fracture_faces"][sel] = True
        gname += "#" + retag
    korth = spec["kind"] == "cart" and not spec.get("pert") and not spec.get("set") and spec.get("map", "id") == "id"
    if spec.get("set") and not G.nonconvex_cells(g):
        raise RuntimeError("declared dart grid has no non-convex cell")
    gcls = f"{d}d/{_gridclass(spec)}"
    if spec.get("scale", 1) != 1:
        gcls += f"/x{spec['scale']:g}"
    reuse = bool(case.get("reuse"))
    if shared is not None:
        gcls += f"/seq-{shared['kind']}{shared['step']}"
    if retag:
        gcls += "/" + retag
    tol_s = TOL * 2 * mu * amax / hmin
    tol_u, tol_r, tol_p = TOL, TOL * mu / hmin, TOL * max(mu, lam) / hmin
    tol_res = TOL * amax * max(2 * mu / hmin, 1.0)

    for neu in F.enumerate_assignments(case["assign"], spec, g, restrict3d=False):
        neu = [int(f) for f in neu]
        dirf = np.setdiff1d(bf, neu)
        cond = np.array(["dir"] * bf.size, dtype=object)
        cond[np.isin(bf, neu)] = "neu"
        bc = pp.BoundaryConditionVectorial(g, bf, cond.tolist())
        base = {"grid": spec, "grid_name": gname, "mu": mu, "lam": lam, "neumann_faces": neu}
        bccls = "allD" if not neu else ("allN" if dirf.size == 0 else f"mix{min(len(neu), 4)}")
        do_solve = dirf.size > 0 and lam > 0
        singular = False
        try:
            dig0 = G.digest(g, bc)
            disc, M = T.discretize(g, mu, lam, bc, twice=reuse, disc=seq_disc)
            if G.digest(g, bc) != dig0:
                out.violate("Tpsa.discretize modified its grid / boundary-condition arguments", **base)
                out.ev(f"{gcls}/{bccls}/impure/VIOLATION")
            fd, rm, div, acc = T.assemble(disc, M, g, mu, lam if do_solve else None)
            S, BS = M[disc.stress_displacement_matrix_key], M[disc.bound_stress_matrix_key]
            A = (div @ fd - acc).toarray() if do_solve else None
            if do_solve:
                sv = np.linalg.svd(A, compute_uv=False)
                # a (numerically) singular system has no unique solution to compare with:
                # e.g. a single Dirichlet face leaves a discrete rotation mode free
                singular = not (sv[-1] > 1e-10 * sv[0])
        except Exception as e:
            out.violate("Tpsa.discretize raised / stored unusable matrices on an admissible input", error=repr(e), **base)
            out.ev(f"{gcls}/{bccls}/exception")
            continue
        for i in range(d):
            a = np.zeros(d)
            a[i] = 1.0
            uc = np.tile(a, nc)
            bcv = np.zeros((d, nf))
            bcv[:, dirf] = a[:, None]
            bcvv = bcv.ravel("F")
            nontrivial = (not korth) or bool(neu)
            key = (gname, mu, lam, tuple(neu), i, shared["step"] if shared else 0) if nontrivial else None
            bad = None
            st = S @ uc + BS @ bcvv
            if not np.all(np.isfinite(st)) or np.abs(st).max() > tol_s:
                k = int(np.nanargmax(np.abs(st)))
                bad = ("TPSA stress of a uniform translation is not zero", {"face": k // d, "component": k % d,
                       "observed": float(st[k]), "tol": tol_s})
            elif do_solve:
                b = -(div @ (rm @ bcvv))
                x_ex = np.concatenate([uc, np.zeros(nc * (rd + 1))])
                res = np.abs(A @ x_ex - b)
                x = None
                if not np.all(np.isfinite(res)) or res.max() > tol_res:
                    k = int(np.nanargmax(res))
                    bad = ("translation with zero rotation / solid pressure does not satisfy the TPSA system",
                           {"row": k, "block": "momentum" if k < nc * d else ("rotation" if k < nc * (d + rd) else "mass"),
                            "residual": float(res[k]), "tol": tol_res})
                elif not singular:
                    x = np.linalg.solve(A, b)
                if x is not None:
                    eu = np.abs(x[: nc * d] - uc)
                    er = np.abs(x[nc * d : nc * (d + rd)])
                    ep = np.abs(x[nc * (d + rd) :])
                    if not np.all(np.isfinite(x)):
                        bad = ("TPSA solution is not finite", {})
                    elif eu.max() > tol_u:
                        k = int(np.argmax(eu))
                        bad = ("TPSA solve does not return the translation", {"cell": k // d, "component": k % d,
                               "observed": float(x[k]), "expected": float(uc[k]), "tol": tol_u})
                    elif er.max() > tol_r:
                        bad = ("TPSA solve returns non-zero rotation for a translation",
                               {"index": int(np.argmax(er)), "observed": float(er.max()), "tol": tol_r})
                    elif ep.max() > tol_p:
                        bad = ("TPSA solve returns non-zero solid pressure for a translation",
                               {"cell": int(np.argmax(ep)), "observed": float(ep.max()), "tol": tol_p})
            cls = f"{gcls}/{bccls}/" + ("reuse/" if reuse else "") + (("stress+residual(singular)" if singular else "stress+solve") if do_solve else "stress-only")
            if bad is not None:
                if len(out.violations) < 5:
                    out.violate(bad[0], translation=a, **bad[1], **base)
                cls += "/VIOLATION"
            out.ev(cls, key)
        if not out.samples and neu and dirf.size and not korth:
            out.samples.append({"grid": gname, "mu": mu, "lam": lam, "neumann_faces": neu,
                                "translations": [f"e{i}" for i in range(d)], "num_faces": int(nf)})
    return out


def known_finding(case, viol):
    return None
