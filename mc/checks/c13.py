"""C13 — MPSA reproduces linear displacement fields exactly.

Engine E: bounded-exhaustive enumeration of (grid, Lame pair, Dirichlet/Neumann
assignment); for every discretization the real ``stress`` / ``bound_stress`` /
``bound_displacement_cell`` / ``bound_displacement_face`` matrices are applied to the
basis of affine displacement fields (plus the rigid rotations) and compared with the
closed-form traction ``sigma(u) n_f`` and displacement ``u(x_f)``.
"""

from __future__ import annotations

import numpy as np

from mc.core import Outcome
from mc.oracles import grpF_fields as F
from mc.oracles import grpF_grids as G

PROPERTY = "C13"
LEVEL = "exploration"
RULE = (
    "every (grid, (mu,lambda), boundary assignment) of the declared alphabet is "
    "discretized once with the real Mpsa; one evaluation = one affine basis field "
    "(translations e_i, x_j e_i, rigid rotations) on one discretization; non-trivial = "
    "non-constant field on a grid that is not K-orthogonal (perturbed, simplex or affine "
    "image) with at least one Neumann and one Dirichlet boundary face; distinct by "
    "(grid, mu, lambda, Neumann set, field, eta, pass); axes: documented scalar `mpsa_eta` in "
    "{default, 0, 0.25, 1/3}, uniform grid scale in {1, 1e-3, 1e3}; on the eta / scale "
    "sub-alphabet every discretization is repeated on the SAME grid and data dictionary and "
    "the second set of matrices is checked too; grid, stiffness and bc arrays are digested "
    "before / after every discretize (purity); valid NON-CONVEX grids (dart quadrilaterals, "
    "validity = positive volumes adding up to the domain measure, closed, non-self-intersecting "
    "cells); `partition_arguments` num_subproblems in {1 (main alphabet), 2, 3}; sequences: ONE "
    "Mpsa object and stiffness object used for two grids in a row (same sizes / different "
    "topology; same topology / different geometry; the same grid object moved); grids with MIXED "
    "FACE TYPES: prisms from grid_extrusion of StructuredTriangleGrid (3- and 4-node faces), plain, "
    "base-perturbed and sheared, with all-Dirichlet, every single Neumann face and admissible pairs"
)
ASSUMPTIONS = [
    "constant isotropic stiffness; every boundary face is entirely Dirichlet or entirely "
    "Neumann (all components); Neumann data = sigma(u) n_outward |f| (PorePy convention)",
    "3-d: only assignments in which no two Neumann boundary faces share an edge; 3-d node "
    "perturbations only on simplex grids (hexahedral faces would become non-planar)",
    "traction required exact on every non-Neumann face; for translations zero on every "
    "face; boundary displacement required exact on Dirichlet faces",
    "tolerance 1e-9 * (2mu+lambda) * max|n_f| * (|grad u| + |u|/h_min) for tractions and "
    "1e-9 * max|u| for displacements (measured floor 1e-14 / 5e-16); all scales are geometric, "
    "so the tolerances are relative under grid scaling",
    "`mpsa_eta` is a documented scalar in [0,1); the continuity point on boundary faces stays at "
    "the face centre for scalar eta (documented), so exactness must hold for every eta",
    "the oracle geometry (centres, normals) is copied before the first discretize: a "
    "discretization that modifies its grid / parameters is reported (purity) and its second "
    "pass is compared against the original geometry",
]
BOUNDS = {
    "quick": "2-d: C(2,2), T(2,2) x 5 offsets of the interior node x all 256 assignments; "
    "C(3,2)@shear side-wise + <=2 flips; 3-d: Tet(1,1,1)~ independent Neumann sets <=2, "
    "C(2,2,2)@shear <=1; (mu,lambda) in {(1,1),(1,10),(3,0)}; inverter python, plus numba on "
    "all-Dirichlet and side-wise assignments; eta in {0,0.25,1/3} and scale in {1e-3,1e3} "
    "(with repeated discretize) on C(2,2)~, T(2,2)~ (side-wise + <=2 flips), Tet(1,1,1)~, "
    "C(2,2,2)@shear (<=1), (mu,lambda)=(1,10); 3 dart grids side-wise + <=2 flips; num_subproblems "
    "in {2,3} on C(3,2)@shear, T(2,2)~, a dart grid, Tet(1,1,1)~, C(2,2,2)@shear; prisms "
    "Prism(2,2;z=0,.4,1) (plain, base-perturbed), Prism(2,1) (plain, @shear): independent Neumann "
    "sets <=1 (<=2 on the Prism(2,1) grids), plus reuse / nsub=2 / eta=0.25 letters",
    "thorough": "2-d: C(2,2), T(2,2) x all 9 offsets x all 256 assignments; C(3,2) x all 81 "
    "offset pairs x (side-wise + <=2 flips); C(3,2), T(3,2) @shear/@skew all 1024 "
    "assignments; 3-d: Tet(1,1,1) x 27 offsets of a corner node x independent sets <=3; "
    "C(2,2,2) @id/@shear/@skew independent sets <=3; Tet(2,1,1)@shear <=2; Tet(2,2,2)~ <=1; "
    "(mu,lambda) in {(1,1),(1,10),(3,0)}; eta in {0,0.25,1/3}: C(2,2)~, T(2,2)~ all 256 "
    "assignments, Tet(1,1,1)~, C(2,2,2)@shear independent sets <=2, all three Lame pairs; scale "
    "in {1e-3,1e3}: same grids, side-wise + <=2 flips / <=1; 5 dart grids; num_subproblems in {2,3} "
    "as quick with <=2 flips and all Lame pairs; prisms as quick with all Lame pairs",
}
MIN_CLASSES = 6
CHUNK = 4

MULAM = [(1.0, 1.0), (1.0, 10.0), (3.0, 0.0)]
TOL = 1e-9
KW = "mechanics"


def _mask_cases(spec, nb, per=64, inverter="python", mulam=None, **extra):
    out = []
    for mu, lam in mulam or MULAM:
        for lo in range(0, 2**nb, per):
            out.append(dict({"grid": spec, "mu": mu, "lam": lam, "inverter": inverter,
                             "assign": {"mode": "masks", "lo": lo, "hi": min(lo + per, 2**nb)}}, **extra))
    return out


def _indep_cases(spec, k, nparts, inverter="python", mulam=None, **extra):
    return [dict({"grid": spec, "mu": mu, "lam": lam, "inverter": inverter,
                  "assign": {"mode": "indep", "max_size": k, "part": p, "nparts": nparts}}, **extra)
            for mu, lam in mulam or MULAM for p in range(nparts)]


def _side_cases(spec, inverter="python", mulam=None, **extra):
    return [dict({"grid": spec, "mu": mu, "lam": lam, "inverter": inverter,
                  "assign": {"mode": "sides", "part": 0, "nparts": 1}}, **extra) for mu, lam in mulam or MULAM]


DARTS = [  # valid non-convex (dart) quadrilaterals: an interior node moved past a neighbour's diagonal
    {"kind": "cart", "n": [3, 3], "set": [[5, [0.05, 0.07]]]},
    {"kind": "cart", "n": [3, 3], "set": [[5, [0.05, 0.07]]], "map": "shear"},
    {"kind": "cart", "n": [2, 2], "set": [[4, [0.9, 0.88]]]},
    {"kind": "cart", "n": [3, 2], "set": [[5, [0.06, 0.1]]]},
    {"kind": "cart", "n": [3, 3], "set": [[5, [0.05, 0.07]], [10, [0.95, 0.93]]]},
]
PRISMS = [  # extruded triangle grids: cells with triangular AND quadrilateral faces
    {"kind": "prism", "n": [2, 2], "z": [0, 0.4, 1]},
    {"kind": "prism", "n": [2, 1], "z": [0, 0.4, 1]},
    {"kind": "prism", "n": [2, 2], "z": [0, 0.4, 1], "pert": [[4, [1, -1]]]},
    {"kind": "prism", "n": [2, 1], "z": [0, 0.4, 1], "map": "shear"},
]
PARTS = [2, 3]  # partition_arguments num_subproblems (1 = default path, main alphabet)
ETAS = [0.0, 0.25, 1.0 / 3.0]  # None (default) is the main alphabet
SCALES = [1e-3, 1e3]


def _axes_cases(tier):
    """eta / scale axes with repeated discretization on the same grid and data dict."""
    fam2 = [{"kind": "cart", "n": [2, 2], "pert": [[4, [1, -1]]]}, {"kind": "tri", "n": [2, 2], "pert": [[4, [1, -1]]]}]
    fam3 = [{"kind": "tet", "n": [1, 1, 1], "pert": [[7, [1, -1, 1]]]}, {"kind": "cart", "n": [2, 2, 2], "map": "shear"}]
    out = []
    quick = tier == "quick"
    ml = [(1.0, 10.0)] if quick else None
    for eta in ETAS:
        for spec in fam2:
            if quick:
                out += _side_cases(spec, mulam=ml, eta=eta, reuse=True) + _indep_cases(spec, 2, 1, mulam=ml, eta=eta, reuse=True)
            else:
                out += _mask_cases(spec, 8, mulam=ml, eta=eta, reuse=True)
        for spec in fam3:
            out += _indep_cases(spec, 1 if quick else 2, 1 if quick else 2, mulam=ml, eta=eta, reuse=True)
    # non-convex cells: side-wise + <=2 flips (thorough: + all <=3 flips on the first two)
    for i, spec in enumerate(DARTS if not quick else DARTS[:3]):
        out += _side_cases(spec, mulam=ml) + _indep_cases(spec, 2, 1, mulam=ml)
    # partitioned discretization (num_subproblems >= 2), incl. a dart grid
    c32s = {"kind": "cart", "n": [3, 2], "map": "shear"}
    for k in PARTS:
        for spec in [c32s, fam2[1], DARTS[0]]:
            out += _side_cases(spec, mulam=ml, nsub=k) + _indep_cases(spec, 1 if quick else 2, 1, mulam=ml, nsub=k)
        for spec in fam3:
            out += _indep_cases(spec, 1, 1, mulam=ml, nsub=k)
    # mixed face types (prisms): all-Dirichlet + EVERY single Neumann face, plus admissible pairs
    for i, spec in enumerate(PRISMS):
        pairs = i in (1, 3)  # pairs on the 8-cell grids only (the 16-cell grids have ~400 admissible pairs)
        out += _indep_cases(spec, 2 if pairs else 1, 4 if pairs else 1, mulam=ml)
    out += _indep_cases(PRISMS[1], 1, 1, mulam=ml, reuse=True)
    out += _indep_cases(PRISMS[1], 1, 1, mulam=ml, nsub=2)
    out += _indep_cases(PRISMS[3], 1, 1, mulam=ml, eta=0.25)
    # ONE Mpsa object (and stiffness object) reused for two grids
    for kind, s1, s2 in G.SEQ_PAIRS_2D:
        out += [dict(c, seq=[kind, s1, s2]) for c in _side_cases(s1, mulam=ml)]
    for kind, s1, s2 in G.SEQ_PAIRS_3D:
        out += [dict(c, seq=[kind, s1, s2]) for c in _indep_cases(s1, 1, 1, mulam=ml)]
    for sc in SCALES:
        for spec in fam2:
            sp = dict(spec, scale=sc)
            out += _side_cases(sp, mulam=[(1.0, 10.0)], reuse=True) + _indep_cases(sp, 2, 1, mulam=[(1.0, 10.0)], reuse=True)
        for spec in fam3:
            out += _indep_cases(dict(spec, scale=sc), 1, 1, mulam=[(1.0, 10.0)], reuse=True)
    return out


def cases(tier):
    out = []
    c22 = {"kind": "cart", "n": [2, 2]}
    t22 = {"kind": "tri", "n": [2, 2]}
    c32 = {"kind": "cart", "n": [3, 2]}
    t32 = {"kind": "tri", "n": [3, 2]}
    tet1 = {"kind": "tet", "n": [1, 1, 1]}
    c222 = {"kind": "cart", "n": [2, 2, 2]}
    if tier == "quick":
        offs = [[0, 0], [1, 1], [1, -1], [-1, 1], [0, -1]]
    else:
        offs = G.lattice(2)
    for base in (c22, t22):
        node = G.interior_nodes(base)[0]
        for o in offs:
            spec = dict(base, pert=[[node, o]]) if any(o) else dict(base)
            out += _mask_cases(spec, 8)
    if tier == "quick":
        spec = dict(c32, map="shear")
        out += _side_cases(spec) + _indep_cases(spec, 2, 1)
        out += _indep_cases(dict(tet1, pert=[[7, [1, -1, 1]]]), 2, 2)
        out += _indep_cases(dict(c222, map="shear"), 1, 1)
        # default (numba) inverter on a small sub-alphabet
        out += _side_cases(dict(c22, pert=[[4, [1, -1]]]), inverter="numba")
        out += _side_cases(dict(t22, pert=[[4, [1, -1]]]), inverter="numba")
        out += _indep_cases(dict(tet1, pert=[[7, [1, -1, 1]]]), 1, 1, inverter="numba")
        out += _axes_cases(tier)
        return out
    n1, n2 = G.interior_nodes(c32)
    for o1 in G.lattice(2):
        for o2 in G.lattice(2):
            pert = [[n, o] for n, o in ((n1, o1), (n2, o2)) if any(o)]
            spec = dict(c32, pert=pert) if pert else dict(c32)
            out += _side_cases(spec) + _indep_cases(spec, 2, 1)
    for base in (c32, t32):
        for m in ("shear", "skew"):
            out += _mask_cases(dict(base, map=m), 10)
    for o in G.lattice(3):
        spec = dict(tet1, pert=[[7, o]]) if any(o) else dict(tet1)
        out += _indep_cases(spec, 3, 4)
    for m in ("id", "shear", "skew"):
        out += _indep_cases(dict(c222, map=m), 3, 32)
    out += _indep_cases({"kind": "tet", "n": [2, 1, 1], "map": "shear"}, 2, 8)
    t222 = {"kind": "tet", "n": [2, 2, 2]}
    out += _indep_cases(dict(t222, pert=[[G.interior_nodes(t222)[0], [1, -1, 1]]]), 1, 8)
    for base, node, o in ((c22, 4, [1, -1]), (t22, 4, [1, -1])):
        out += _mask_cases(dict(base, pert=[[node, o]]), 8, inverter="numba")
    out += _indep_cases(dict(tet1, pert=[[7, [1, -1, 1]]]), 2, 2, inverter="numba")
    out += _indep_cases(dict(c222, map="shear"), 1, 1, inverter="numba")
    out += _axes_cases(tier)
    return out


def _gridclass(spec):
    s = spec["kind"]
    if spec.get("pert"):
        s += "~"
    if spec.get("set"):
        s += "!dart"
    if spec.get("map", "id") != "id":
        s += "@"
    return s


def run_case(case) -> Outcome:
    if "seq" not in case:
        return _run_single(case)
    # one Mpsa object (and, sizes permitting, one stiffness object) for both grids
    out = Outcome()
    shared = {"kind": case["seq"][0], "step": 0}
    for spec in case["seq"][1:]:
        shared["step"] += 1
        out.merge(_run_single(dict(case, grid=spec), shared))
    return out


def _run_single(case, shared=None) -> Outcome:
    import porepy as pp

    out = Outcome()
    spec, mu, lam = case["grid"], case["mu"], case["lam"]
    g = G.get_grid(spec, shared)
    d = g.dim
    nf, nc = g.num_faces, g.num_cells
    bf = G.boundary_faces(g)
    sgn = G.outward_sign(g)
    # copies: the oracle must not follow a grid that the code under test modified
    xc, xf, nrm = g.cell_centers[:d].copy(), g.face_centers[:d].copy(), g.face_normals[:d].copy()
    eta = case.get("eta", None)
    reuse = bool(case.get("reuse", False))
    hmin = G.h_min(g)
    amax = float(np.linalg.norm(nrm, axis=0).max())
    fields = F.affine_vector_basis(d)
    korth = spec["kind"] == "cart" and not spec.get("pert") and not spec.get("set") and spec.get("map", "id") == "id"
    if spec.get("set") and not G.nonconvex_cells(g):
        raise RuntimeError("declared dart grid has no non-convex cell")
    nsub = case.get("nsub", None)
    gname = G.name(spec)
    gcls = f"{d}d/{_gridclass(spec)}/{case['inverter']}"
    if eta is not None:
        gcls += f"/eta={eta:.2f}"
    if spec.get("scale", 1) != 1:
        gcls += f"/x{spec['scale']:g}"
    if nsub is not None:
        gcls += f"/nsub={nsub}"
    if shared is not None:
        gcls += f"/seq-{shared['kind']}{shared['step']}"
        if shared.get("stiff") is None or shared["stiff"].values.shape[2] != nc:
            shared["stiff"] = pp.FourthOrderTensor(mu * np.ones(nc), lam * np.ones(nc))
        stiff = shared["stiff"]
        seq_disc = shared.setdefault("disc", pp.Mpsa(KW))
    else:
        stiff = pp.FourthOrderTensor(mu * np.ones(nc), lam * np.ones(nc))
        seq_disc = None
    dig0 = G.digest(g, stiff)

    for neu in F.enumerate_assignments(case["assign"], spec, g):
        neu = [int(f) for f in neu]
        is_neu = np.zeros(nf, bool)
        is_neu[neu] = True
        dirf = np.setdiff1d(bf, neu)
        bc = pp.BoundaryConditionVectorial(g, bf, ["dir"] * bf.size)
        bc.is_dir[:, neu] = False
        bc.is_neu[:, neu] = True
        params = {"fourth_order_tensor": stiff, "bc": bc, "inverter": case["inverter"]}
        if eta is not None:
            params["mpsa_eta"] = eta
        if nsub is not None:
            params["partition_arguments"] = {"num_subproblems": nsub}
        data = pp.initialize_data({}, KW, params)
        bccls = "allD" if not neu else ("allN" if dirf.size == 0 else f"mix{min(len(neu), 4)}")
        disc = seq_disc if seq_disc is not None else pp.Mpsa(KW)
        dig_bc = G.digest(bc)
        for npass in range(2 if reuse else 1):
            tag = "" if npass == 0 else "/reuse"
            try:
                # second pass: same discretization object, same grid, same data dictionary
                disc.discretize(g, data)
                M = data[pp.DISCRETIZATION_MATRICES][KW]
                S, BS = M[disc.stress_matrix_key], M[disc.bound_stress_matrix_key]
                DC, DF = M[disc.bound_displacement_cell_matrix_key], M[disc.bound_displacement_face_matrix_key]
            except Exception as e:
                out.violate("Mpsa.discretize raised on an admissible input", error=repr(e), grid=spec,
                            mu=mu, lam=lam, neumann_faces=neu, eta=eta, discretize_pass=npass + 1)
                out.ev(f"{gcls}/{bccls}/exception{tag}")
                break
            if G.digest(g, stiff) != dig0 or G.digest(bc) != dig_bc:
                if len(out.violations) < 5:
                    out.violate("Mpsa.discretize modified its grid / stiffness / boundary-condition arguments",
                                grid=spec, grid_name=gname, mu=mu, lam=lam, neumann_faces=neu, eta=eta,
                                discretize_pass=npass + 1)
                out.ev(f"{gcls}/{bccls}/impure/VIOLATION")
                dig0, dig_bc = G.digest(g, stiff), G.digest(bc)
            for label, kind, a, Gm in fields:
                uc = a[:, None] + Gm @ xc
                uf = a[:, None] + Gm @ xf
                T = F.hooke(mu, lam, Gm) @ nrm  # exact traction w.r.t. the face normal
                bcv = np.zeros((d, nf))
                bcv[:, dirf] = uf[:, dirf]
                bcv[:, neu] = T[:, neu] * sgn[neu]
                ucv, bcvv = uc.ravel("F"), bcv.ravel("F")
                tr = (S @ ucv + BS @ bcvv).reshape((d, nf), order="F")
                ub = (DC @ ucv + DF @ bcvv).reshape((d, nf), order="F")
                gnorm = float(np.abs(Gm).max())
                umax = float(max(np.abs(uc).max(), np.abs(uf).max(), 1.0))
                tol_t = TOL * (2 * mu + lam) * amax * (gnorm + umax / hmin)
                tol_u = TOL * umax
                faces = np.arange(nf) if kind == "transl" else np.where(~is_neu)[0]
                err_t = np.abs(tr - T)[:, faces]
                bad = None
                if faces.size and (not np.all(np.isfinite(tr)) or err_t.max() > tol_t):
                    k = int(np.nanargmax(err_t.max(axis=0))) if np.all(np.isfinite(err_t)) else 0
                    f = int(faces[k])
                    bad = ("MPSA traction differs from sigma(u).n for a linear field", f, tr[:, f], T[:, f], tol_t)
                elif dirf.size and (not np.all(np.isfinite(ub)) or np.abs(ub - uf)[:, dirf].max() > tol_u):
                    k = int(np.argmax(np.abs(ub - uf)[:, dirf].max(axis=0)))
                    f = int(dirf[k])
                    bad = ("MPSA boundary displacement differs from u on a Dirichlet face", f, ub[:, f], uf[:, f], tol_u)
                nontrivial = (not korth) and kind != "transl" and bool(neu) and dirf.size > 0
                key = (gname, mu, lam, tuple(neu), label, case["inverter"], eta, npass, nsub, shared["step"] if shared else 0) if nontrivial else None
                if bad is not None:
                    if len(out.violations) < 5:
                        out.violate(bad[0], grid=spec, grid_name=gname, mu=mu, lam=lam, neumann_faces=neu,
                                    field=label, a=a, grad=Gm, face=bad[1], observed=bad[2], expected=bad[3],
                                    tol=bad[4], inverter=case["inverter"], eta=eta, num_subproblems=nsub, discretize_pass=npass + 1)
                    out.ev(f"{gcls}/{bccls}/{kind}{tag}/VIOLATION", key)
                else:
                    out.ev(f"{gcls}/{bccls}/{kind}{tag}", key)
        if not out.samples and neu and dirf.size:
            out.samples.append({"grid": gname, "mu": mu, "lam": lam, "neumann_faces": neu, "mpsa_eta": eta,
                                "fields": [f[0] for f in fields], "num_faces": int(nf)})
    return out


def known_finding(case, viol):
    return None
