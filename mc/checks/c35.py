"""C35 — sparse-matrix utilities return what the equivalent dense numpy operations return.

Engine E. Every sparsity pattern of every small shape, in csr and csc storage with sorted
and reversed minor indices and with/without an explicit stored zero, against every index
argument (every subset in every order, short sequences with repetition, every boolean
mask, python ints). The oracle is dense numpy on arrays produced by plain loops
(``mc.oracles.grpK_sparse``); comparisons are exact.
"""

from __future__ import annotations

import itertools

import numpy as np
import scipy.sparse as sps

from mc.core import Outcome
from mc.oracles import grpK_sparse as G

PROPERTY = "C35"
LEVEL = "exploration"
RULE = (
    "one evaluation = one call of one utility on one concrete (matrix storage, argument) pair; "
    "matrices: all 2^(r*c) stored patterns of each shape, x {csr, csc} x {sorted, reversed minor "
    "indices} x {no explicit zero, lowest stored entry is an explicit zero}, values distinct "
    "integers; non-trivial = the matrix has an empty and a non-empty line, or unsorted indices, "
    "or an explicit zero, or the index argument is not the identity (unsorted / partial / "
    "repeated / mask / int); distinct by (function, matrix, argument)"
)
ASSUMPTIONS = [
    "matrices have at least one row and one column; values are small integers (exact)",
    "only argument kinds admitted by each docstring are passed: zero_rows/zero_columns get "
    "integer arrays and python ints; merge_matrices gets unique lines; block sizes are >= 1",
    "rldecode on 2-d input and rlencode/rldecode round trips on 2-d input are not judged "
    "(the two docstrings disagree on the axis); rldecode is judged on 1-d input against "
    "numpy.repeat, rlencode on 2-d input against numpy.repeat along axis 1",
    "copy(): values, format and order of indices are judged; memory aliasing is only recorded "
    "as an observation class",
    "dtype axis: operands of dtype bool, int32, int64, float64 (fractional values), complex128 in "
    "every order wherever several arrays are combined; reference = dense numpy with numpy's "
    "promotion (np.vstack / np.block / np.diag of the dense blocks), compared on values in "
    "complex128; merge_matrices is compared with the dense in-place assignment A[lines] = B, which "
    "keeps the dtype of A (complex into real is skipped); index arrays are passed as int32 and int64",
    "purity: every argument of every utility must be bitwise unchanged by the call (ndarray bytes; "
    "sparse data/indices/indptr/format/shape), except the first argument of the documented in-place "
    "functions zero_rows, zero_columns, merge_matrices, stack_mat; for the *_from_sparse_blocks "
    "functions the block objects (not the list holding them) must be unchanged",
]
BOUNDS = {
    "quick": "shapes r x c with r*c <= 6 (r, c <= 3): 170 patterns; index sequences with "
    "repetition up to length 3; merge: all B patterns; stacks: second operand r*c <= 4; "
    "sparse blocks: 1-3 blocks out of the 26 patterns of shapes <= 2x2; dense blocks: "
    "size, count <= 4; rldecode: length <= 4, counts 0..3; expand_index_pointers: length <= 3, "
    "bounds 0..3; block_diag_index: <= 3 blocks of size 1..3; dtype axis: 5 dtypes, all ordered "
    "pairs and triples of block dtypes over 4 (pairs) / 2x2x2 (triples) block patterns x 3 formats",
    "thorough": "same with all 682 patterns of shapes up to 3 x 3 (merge: 3x3 included)",
}
MIN_CLASSES = 20
CHUNK = 4
MAX_VIOL_PER_CASE = 4

FMTS = ("csr", "csc")
ORDERS = ("sorted", "reversed")


def shapes(tier):
    lim = 6 if tier == "quick" else 9
    return [(r, c) for r in (1, 2, 3) for c in (1, 2, 3) if r * c <= lim]


def cases(tier):
    out = []
    for r, c in shapes(tier):
        nm = 1 << (r * c)
        step = 64
        for fmt in FMTS:
            for lo in range(0, nm, step):
                rngm = [lo, min(nm, lo + step)]
                out.append({"fn": "slice", "r": r, "c": c, "fmt": fmt, "masks": rngm})
                out.append({"fn": "zero", "r": r, "c": c, "fmt": fmt, "masks": rngm})
                out.append({"fn": "misc", "r": r, "c": c, "fmt": fmt, "masks": rngm})
            mstep = 64 if r * c <= 6 else 8
            for lo in range(0, nm, mstep):
                out.append({"fn": "merge", "r": r, "c": c, "fmt": fmt, "masks": [lo, min(nm, lo + mstep)]})
            for lo in range(0, nm, step):
                out.append({"fn": "stack", "r": r, "c": c, "fmt": fmt, "masks": [lo, min(nm, lo + step)]})
    for i in range(26):
        out.append({"fn": "sparse_blocks", "first": i})
    out.append({"fn": "dense_blocks"})
    out.append({"fn": "dia_blocks"})
    out.append({"fn": "rle"})
    for L in (0, 1, 2, 3):
        out.append({"fn": "eip", "L": L})
    out.append({"fn": "expand"})
    out.append({"fn": "bdi"})
    # dtype axis: wherever several arrays / matrices are combined
    for i in range(len(DTYPES)):
        out.append({"fn": "dt_blocks", "first_dtype": i})
    out.append({"fn": "dt_stack"})
    out.append({"fn": "dt_misc"})
    return out


# ------------------------------------------------------------------------------ helpers


class _Rec:
    """Violation recorder with a per-case cap (the count of suppressed ones is kept)."""

    def __init__(self, out):
        self.out = out
        self.n = {}

    def bad(self, tag, what, **detail):
        k = self.n.get(tag, 0)
        self.n[tag] = k + 1
        if k < MAX_VIOL_PER_CASE:
            self.out.violate(what, tag=tag, **detail)
        else:
            self.out.extra["suppressed_violations"] = self.out.extra.get("suppressed_violations", 0) + 1


def _mats(case):
    r, c = case["r"], case["c"]
    for mask in range(*case["masks"]):
        for z in G.zmasks(mask):
            for order in ORDERS:
                yield mask, z, order


def _mat_nontrivial(r, c, mask, z, order, fmt):
    lines = G.storage(r, c, mask, z, fmt, order)
    lens = [len(x) for x in lines]
    unsorted = order == "reversed" and any(n > 1 for n in lens)
    return (0 in lens and any(lens)) or unsorted or z != 0


def _desc(r, c, mask, z, fmt, order):
    return {"shape": [r, c], "stored_mask": mask, "explicit_zero_mask": z, "format": fmt, "order": order,
            "dense": G.dense(r, c, mask, z).tolist()}


def _eq(a, b):
    a, b = np.asarray(a), np.asarray(b)
    return a.shape == b.shape and np.array_equal(a, b)


def _obs(M):
    """Dense content of a result for the report; never touches a malformed matrix (scipy's
    C routines corrupt memory on inconsistent index arrays)."""
    if not sps.issparse(M):
        return repr(M)
    if G.is_wellformed(M) is not None:
        return {"malformed": G.is_wellformed(M), "indptr": np.asarray(M.indptr).tolist(),
                "indices": np.asarray(M.indices).tolist(), "data": np.asarray(M.data).tolist(), "shape": list(M.shape)}
    return M.toarray().tolist()


def _eqm(M, exp):
    """Sparse result equals the dense expectation (False for malformed storage)."""
    return sps.issparse(M) and G.is_wellformed(M) is None and _eq(M.toarray(), exp)


def _call(rec, tag, fn, *args, pure=None, **detail):
    """Call the code under test; an exception is a violation. Purity oracle: the bitwise
    content of every argument whose position is in ``pure`` (default: all) must be unchanged
    by the call (in-place functions pass the positions of their read-only arguments)."""
    pos = range(len(args)) if pure is None else pure
    before = [G.digest(args[i]) for i in pos]
    try:
        res = fn(*args)
    except Exception as e:  # noqa: BLE001
        rec.bad(tag, f"{tag} raised on admissible input", error=repr(e), **detail)
        return False, None
    for i, b in zip(pos, before):
        if G.digest(args[i]) != b:
            rec.bad(tag, f"{tag} modified its argument #{i} (storage digest changed)", **detail)
            return False, None
    return True, res


# ------------------------------------------------------------------- slicing and zeroing


def _index_args(n):
    seqs = G.ordered_subsets(n, repeat_len=3)
    args = [("seq", s) for s in seqs]
    args += [("seq32", s) for s in G.ordered_subsets(n)]  # same index sets as int32 arrays
    args += [("mask", list(m)) for m in itertools.product([False, True], repeat=n)]
    args += [("int", i) for i in range(n)]
    return args


def run_slice(case, out):
    from porepy.numerics.linalg import matrix_operations as mo

    rec = _Rec(out)
    r, c, fmt = case["r"], case["c"], case["fmt"]
    n = r if fmt == "csr" else c
    args = _index_args(n)
    for mask, z, order in _mats(case):
        D = G.dense(r, c, mask, z)
        lines = G.storage(r, c, mask, z, fmt, order)
        mnt = _mat_nontrivial(r, c, mask, z, order, fmt)
        for kind, a in args:
            if kind == "seq":
                ind = np.array(a, dtype=np.int64)
                sel = a
            elif kind == "seq32":
                ind = np.array(a, dtype=np.int32)
                sel = a
            elif kind == "mask":
                ind = np.array(a, dtype=bool)
                sel = [i for i in range(n) if a[i]]
            else:
                ind = int(a)
                sel = [a]
            ident = kind in ("seq", "seq32") and sel == list(range(n))
            key = ("slice", r, c, mask, z, fmt, order, kind, tuple(a) if kind != "int" else a) if (mnt or not ident) else None
            acls = kind if kind not in ("seq", "seq32") else ("seq-empty" if not sel else "seq-rep" if len(set(sel)) < len(sel)
                                              else "seq-sorted" if sel == sorted(sel) else "seq-unsorted") + ("/int32" if kind == "seq32" else "")
            A = G.build(r, c, mask, z, fmt, order)
            det = dict(matrix=_desc(r, c, mask, z, fmt, order), index=a, index_kind=kind)
            # --- slice_sparse_matrix
            exp = D[sel, :] if fmt == "csr" else D[:, sel]
            ok, S = _call(rec, "slice_sparse_matrix", mo.slice_sparse_matrix, A, ind, **det)
            cls = f"slice_sparse_matrix/{fmt}/{acls}"
            if ok:
                bad = None
                if not sps.issparse(S) or S.format != fmt:
                    bad = "result is not a %s matrix" % fmt
                elif S.shape != exp.shape:
                    bad = "shape %s, dense slicing gives %s" % (S.shape, exp.shape)
                elif G.is_wellformed(S):
                    bad = "malformed result: " + G.is_wellformed(S)
                elif not _eqm(S, exp):
                    bad = "values differ from dense slicing"
                if bad:
                    rec.bad("slice_sparse_matrix", "slice_sparse_matrix: " + bad, expected=exp.tolist(),
                            observed=_obs(S), **det)
                    cls = "VIOLATION"
            else:
                cls = "VIOLATION"
            out.ev(cls, key)
            # --- slice_indices (with and without the positions in the storage arrays)
            exp_idx = [e[0] for i in sel for e in lines[i]]
            exp_val = [e[1] for i in sel for e in lines[i]]
            for with_pos in (False, True):
                ok, res = _call(rec, "slice_indices", mo.slice_indices, A, ind, with_pos, **det)
                cls = f"slice_indices/{fmt}/{acls}/{'pos' if with_pos else 'nopos'}"
                if ok:
                    bad = None
                    if with_pos:
                        if not (isinstance(res, tuple) and len(res) == 2):
                            bad = "did not return (indices, array_ind)"
                        else:
                            idx, pos = res
                            if not _eq(idx, exp_idx):
                                bad = "indices differ from the stored minor indices of the selected lines"
                            elif not _eq(A.indices[pos], exp_idx) or not _eq(A.data[pos], exp_val):
                                bad = "array_ind does not address the selected entries"
                    else:
                        if not _eq(res, exp_idx):
                            bad = "indices differ from the stored minor indices of the selected lines"
                    if bad:
                        rec.bad("slice_indices", "slice_indices: " + bad, expected_indices=exp_idx,
                                observed=repr(res), **det)
                        cls = "VIOLATION"
                else:
                    cls = "VIOLATION"
                out.ev(cls, key)
    if not out.samples:
        out.samples.append({"fn": "slice_sparse_matrix / slice_indices", "case": case})


def run_zero(case, out):
    from porepy.numerics.linalg import matrix_operations as mo

    rec = _Rec(out)
    r, c, fmt = case["r"], case["c"], case["fmt"]
    n = r if fmt == "csr" else c
    fn = mo.zero_rows if fmt == "csr" else mo.zero_columns
    name = "zero_rows" if fmt == "csr" else "zero_columns"
    wrong = mo.zero_columns if fmt == "csr" else mo.zero_rows
    args = ([("seq", s) for s in G.ordered_subsets(n)] + [("seq32", s) for s in G.ordered_subsets(n)]
            + [("int", i) for i in range(n)])
    for mask, z, order in _mats(case):
        D = G.dense(r, c, mask, z)
        mnt = _mat_nontrivial(r, c, mask, z, order, fmt)
        for kind, a in args:
            sel = a if kind != "int" else [a]
            arg = (np.array(a, dtype=np.int64) if kind == "seq" else np.array(a, dtype=np.int32) if kind == "seq32"
                   else int(a))
            A = G.build(r, c, mask, z, fmt, order)
            ip, ix = A.indptr.copy(), A.indices.copy()
            exp = D.copy()
            if fmt == "csr":
                exp[sel, :] = 0
            else:
                exp[:, sel] = 0
            det = dict(matrix=_desc(r, c, mask, z, fmt, order), index=a, index_kind=kind)
            ok, res = _call(rec, name, fn, A, arg, pure=(1,), **det)
            cls = f"{name}/{kind}/{'empty' if not sel else 'unsorted' if sel != sorted(sel) else 'sorted'}"
            if ok:
                bad = None
                if res is not None:
                    bad = "returned something (documented: None, in place)"
                elif not _eqm(A, exp):
                    bad = "values differ from dense zeroing"
                elif not (_eq(A.indptr, ip) and _eq(A.indices, ix)):
                    bad = "sparsity structure changed"
                if bad:
                    rec.bad(name, f"{name}: " + bad, expected=exp.tolist(), observed=_obs(A), **det)
                    cls = "VIOLATION"
            else:
                cls = "VIOLATION"
            out.ev(cls, ("zero", r, c, mask, z, fmt, order, kind, tuple(sel)) if (mnt or sel) else None)
        # documented format check
        A = G.build(r, c, mask, z, fmt, order)
        try:
            wrong(A, np.array([0]))
            rec.bad(name + "-format", "zeroing along the uncompressed axis did not raise ValueError",
                    matrix=_desc(r, c, mask, z, fmt, order))
            out.ev("VIOLATION")
        except ValueError:
            out.ev("format-rejected")
        except Exception as e:  # noqa: BLE001
            rec.bad(name + "-format", "wrong format raised something else than ValueError", error=repr(e))
            out.ev("VIOLATION")


# ----------------------------------------------------------------------------- merge, stack


def run_merge(case, out):
    from porepy.numerics.linalg import matrix_operations as mo

    rec = _Rec(out)
    r, c, fmt = case["r"], case["c"], case["fmt"]
    n = r if fmt == "csr" else c
    subsets = [s for s in G.ordered_subsets(n) if s]
    for mask in range(*case["masks"]):
        for order in ORDERS:
            D = G.dense(r, c, mask, 0)
            for lines in subsets:
                k = len(lines)
                br, bc = (k, c) if fmt == "csr" else (r, k)
                srt = lines == sorted(lines)
                for bmask in range(1 << (br * bc)):
                    A = G.build(r, c, mask, 0, fmt, order)
                    B = G.build(br, bc, bmask, 0, fmt, order, base=20)
                    DB = G.dense(br, bc, bmask, 0, base=20)
                    exp = D.copy()
                    if fmt == "csr":
                        exp[lines, :] = DB
                    else:
                        exp[:, lines] = DB
                    det = dict(A=_desc(r, c, mask, 0, fmt, order), B=DB.tolist(), lines=lines, format=fmt,
                               lines_sorted=srt)
                    ok, res = _call(rec, "merge_matrices" + ("" if srt else "-unsorted"), mo.merge_matrices, A, B,
                                    np.array(lines, dtype=int), fmt, pure=(1, 2, 3), **det)
                    cls = f"merge/{fmt}/{'sorted' if srt else 'unsorted'}/{'k=n' if k == n else 'k<n'}"
                    if ok:
                        bad = None
                        if A.shape != (r, c):
                            bad = "shape changed"
                        elif G.is_wellformed(A):
                            bad = "malformed result: " + G.is_wellformed(A)
                        elif not _eqm(A, exp):
                            bad = "values differ from dense assignment A[lines] = B"
                        if bad:
                            rec.bad("merge_matrices" + ("" if srt else "-unsorted"), "merge_matrices: " + bad,
                                    expected=exp.tolist(), observed=_obs(A), **det)
                            cls = "VIOLATION"
                    else:
                        cls = "VIOLATION"
                    out.ev(cls, ("merge", r, c, mask, order, fmt, tuple(lines), bmask if br * bc <= 4 else bmask % 16))
    # documented rejections
    A = G.build(r, c, (1 << (r * c)) - 1, 0, fmt, "sorted")
    if n >= 2:
        B = G.build(*((2, c) if fmt == "csr" else (r, 2)), 0, 0, fmt, "sorted")
        try:
            mo.merge_matrices(A, B, np.array([0, 0]), fmt)
            rec.bad("merge-reject", "merge_matrices accepted repeated lines")
            out.ev("VIOLATION")
        except ValueError:
            out.ev("merge/rejected-duplicates")


def _second_shapes(r, c, fmt, diag):
    lim = 4
    if diag:
        return [(a, b) for a in (1, 2, 3) for b in (1, 2, 3) if a * b <= lim]
    if fmt == "csr":
        return [(a, c) for a in (1, 2, 3) if a * c <= lim]
    return [(r, b) for b in (1, 2, 3) if r * b <= lim]


def run_stack(case, out):
    from porepy.numerics.linalg import matrix_operations as mo

    rec = _Rec(out)
    r, c, fmt = case["r"], case["c"], case["fmt"]
    for mask in range(*case["masks"]):
        for order in ORDERS:
            D = G.dense(r, c, mask, 0)
            for diag in (False, True):
                for br, bc in _second_shapes(r, c, fmt, diag):
                    for bmask in range(1 << (br * bc)):
                        A = G.build(r, c, mask, 0, fmt, order)
                        B = G.build(br, bc, bmask, 0, fmt, order, base=20)
                        DB = G.dense(br, bc, bmask, 0, base=20)
                        a_idx, b_idx = A.indices.copy(), B.indices.copy()
                        det = dict(A=_desc(r, c, mask, 0, fmt, order), B=DB.tolist(), format=fmt)
                        if diag:
                            exp = np.block([[D, np.zeros((r, bc))], [np.zeros((br, c)), DB]])
                            ok, C = _call(rec, "stack_diag", mo.stack_diag, A, B, **det)
                            name = "stack_diag"
                            A_after = A
                        else:
                            exp = np.vstack((D, DB)) if fmt == "csr" else np.hstack((D, DB))
                            ok, res = _call(rec, "stack_mat", mo.stack_mat, A, B, pure=(1,), **det)
                            C = A
                            name = "stack_mat"
                        cls = f"{name}/{fmt}/{'B-empty' if bmask == 0 else 'B'}/{'A-empty' if mask == 0 else 'A'}"
                        if ok:
                            bad = None
                            if not sps.issparse(C) or C.format != fmt:
                                bad = "result is not a %s matrix" % fmt
                            elif C.shape != exp.shape:
                                bad = "shape %s, dense stacking gives %s" % (C.shape, exp.shape)
                            elif G.is_wellformed(C):
                                bad = "malformed result: " + G.is_wellformed(C)
                            elif not _eqm(C, exp):
                                bad = "values differ from dense stacking"
                            elif not _eq(C.indices[: a_idx.size], a_idx):
                                bad = "order of the indices of A changed"
                            elif diag and not (_eqm(A, D) and _eqm(B, DB)):
                                bad = "stack_diag modified an argument"
                            elif not diag and not _eqm(B, DB):
                                bad = "stack_mat modified B"
                            if bad:
                                rec.bad(name, f"{name}: " + bad, expected=exp.tolist(),
                                        observed=_obs(C), **det)
                                cls = "VIOLATION"
                        else:
                            cls = "VIOLATION"
                        out.ev(cls, (name, r, c, mask, order, fmt, br, bc, bmask))


# ------------------------------------------------------------------------ per-matrix misc


def run_misc(case, out):
    from porepy.numerics.linalg import matrix_operations as mo

    rec = _Rec(out)
    r, c, fmt0 = case["r"], case["c"], case["fmt"]
    # the third format (coo) is exercised from the csr cases
    fmts = [fmt0] + (["coo"] if fmt0 == "csr" else [])
    for mask, z, order in _mats(case):
        D = G.dense(r, c, mask, z)
        nstored = bin(mask).count("1")
        for fmt in fmts:
            mnt = fmt == "coo" or _mat_nontrivial(r, c, mask, z, order, fmt)
            key = ("misc", r, c, mask, z, fmt, order) if mnt else None
            det = dict(matrix=_desc(r, c, mask, z, fmt, order))
            # copy
            A = G.build(r, c, mask, z, fmt, order)
            ok, C = _call(rec, "copy", mo.copy, A, **det)
            cls = f"copy/{fmt}"
            if ok:
                bad = None
                if C is A:
                    bad = "returned the argument itself"
                elif not sps.issparse(C) or C.format != fmt or C.shape != (r, c):
                    bad = "format or shape differs"
                elif not _eqm(C, D):
                    bad = "values differ"
                elif fmt != "coo" and not (_eq(C.indices, A.indices) and _eq(C.indptr, A.indptr)):
                    bad = "order of indices changed"
                if bad:
                    rec.bad("copy", "copy: " + bad, **det)
                    cls = "VIOLATION"
                elif nstored and np.shares_memory(C.data, A.data):
                    cls += "/aliases-argument"
            else:
                cls = "VIOLATION"
            out.ev(cls, key)
            # optimized_compressed_storage
            A = G.build(r, c, mask, z, fmt, order)
            ok, C = _call(rec, "optimized_compressed_storage", mo.optimized_compressed_storage, A, **det)
            want = "csc" if r > c else "csr"
            cls = f"optimized_storage/{fmt}->{want}"
            if ok:
                if not sps.issparse(C) or C.format != want or C.shape != (r, c) or not _eqm(C, D):
                    rec.bad("optimized_compressed_storage", "optimized_compressed_storage: wrong format or values",
                            expected_format=want, observed_format=getattr(C, "format", None), **det)
                    cls = "VIOLATION"
            else:
                cls = "VIOLATION"
            out.ev(cls, key)
            # sparse_array_to_row_col_data
            for rem in (False, True):
                A = G.build(r, c, mask, z, fmt, order)
                ok, res = _call(rec, "sparse_array_to_row_col_data", mo.sparse_array_to_row_col_data, A, rem, **det)
                cls = f"row_col_data/{fmt}/{'remove_zeros' if rem else 'keep'}/{'z' if z else '-'}"
                if ok:
                    bad = None
                    try:
                        rows, cols, vals = res
                        R = np.zeros((r, c))
                        np.add.at(R, (np.asarray(rows), np.asarray(cols)), np.asarray(vals))
                        nz = bin(z).count("1")
                        if not _eq(R, D):
                            bad = "triplets do not reproduce the matrix"
                        elif len(set(zip(np.asarray(rows).tolist(), np.asarray(cols).tolist()))) != len(rows):
                            bad = "duplicate (row, col) pairs"
                        elif rem and (np.any(np.asarray(vals) == 0) or len(vals) != nstored - nz):
                            bad = "explicit zeros not removed"
                        elif not rem and len(vals) != nstored:
                            bad = "number of triplets differs from number of stored entries"
                    except Exception as e:  # noqa: BLE001
                        bad = "unusable result " + repr(e)
                    if bad:
                        rec.bad("sparse_array_to_row_col_data", "sparse_array_to_row_col_data: " + bad, remove_nz=rem, **det)
                        cls = "VIOLATION"
                else:
                    cls = "VIOLATION"
                out.ev(cls, key)
            # Kronecker expansion
            for nd in (1, 2, 3):
                A = G.build(r, c, mask, z, fmt, order)
                ok, Kp = _call(rec, "sparse_kronecker_product", mo.sparse_kronecker_product, A, nd, **det)
                cls = f"kron/{fmt}/nd{nd}"
                if ok:
                    exp = np.kron(D, np.eye(nd))
                    if not sps.issparse(Kp) or Kp.shape != exp.shape or not _eqm(Kp, exp):
                        rec.bad("sparse_kronecker_product", "sparse_kronecker_product differs from numpy.kron(A, eye(nd))",
                                nd=nd, **det)
                        cls = "VIOLATION"
                else:
                    cls = "VIOLATION"
                out.ev(cls, key)


# ------------------------------------------------------------------------------- blocks


def _block_alphabet():
    out = []
    for r, c in ((1, 1), (1, 2), (2, 1), (2, 2)):
        for mask in range(1 << (r * c)):
            out.append((r, c, mask))
    return out  # 26


def _dense_blockdiag(blocks):
    R = sum(b.shape[0] for b in blocks)
    C = sum(b.shape[1] for b in blocks)
    M = np.zeros((R, C))
    i = j = 0
    for b in blocks:
        M[i: i + b.shape[0], j: j + b.shape[1]] = b
        i += b.shape[0]
        j += b.shape[1]
    return M


def run_sparse_blocks(case, out):
    from porepy.numerics.linalg import matrix_operations as mo

    rec = _Rec(out)
    alpha = _block_alphabet()
    first = alpha[case["first"]]
    F3 = ("csr", "csc", "coo")
    seqs = [((first,), fm) for fm in itertools.product(F3, repeat=1)]
    seqs += [((first,), (f + "-rev",)) for f in ("csr", "csc")]
    for b in alpha:
        seqs += [((first, b), fm) for fm in itertools.product(F3, repeat=2)]
    for b in alpha:
        for c3 in alpha:
            seqs += [((first, b, c3), (f, f, f)) for f in F3]
    for blocks, fmts in seqs:
        dens = [G.dense(r, c, m, 0, base=10 * (i + 1)) for i, (r, c, m) in enumerate(blocks)]
        exp = _dense_blockdiag(dens)
        for target, fn in (("csr", mo.csr_matrix_from_sparse_blocks), ("csc", mo.csc_matrix_from_sparse_blocks)):
            real = []
            for i, ((r, c, m), f) in enumerate(zip(blocks, fmts)):
                order = "reversed" if f.endswith("-rev") else "sorted"
                real.append(G.build(r, c, m, 0, f.replace("-rev", ""), order, base=10 * (i + 1)))
            det = dict(blocks=[d.tolist() for d in dens], formats=list(fmts), target=target)
            originals = list(real)
            dig = [G.digest(b) for b in originals]
            ok, M = _call(rec, target + "_from_sparse_blocks", fn, real, pure=(), **det)
            if ok and [G.digest(b) for b in originals] != dig:
                rec.bad(target + "_from_sparse_blocks", f"{target}_matrix_from_sparse_blocks modified a block (storage digest changed)", **det)
                ok = False
            cls = f"sparse_blocks/{target}/n{len(blocks)}/{'mixed' if len(set(fmts)) > 1 else fmts[0]}"
            if ok:
                bad = None
                if not sps.issparse(M) or M.format != target:
                    bad = "result is not a %s matrix" % target
                elif M.shape != exp.shape:
                    bad = "shape %s, block_diag gives %s" % (M.shape, exp.shape)
                elif G.is_wellformed(M):
                    bad = "malformed result: " + G.is_wellformed(M)
                elif not _eqm(M, exp):
                    bad = "values differ from the dense block diagonal matrix"
                if bad:
                    rec.bad(target + "_from_sparse_blocks", f"{target}_matrix_from_sparse_blocks: " + bad,
                            expected=exp.tolist(), observed=_obs(M), **det)
                    cls = "VIOLATION"
            else:
                cls = "VIOLATION"
            out.ev(cls, ("sb", blocks, fmts, target) if len(blocks) > 1 or any(m == 0 for _, _, m in blocks) else None)


def run_dense_blocks(case, out):
    from porepy.numerics.linalg import matrix_operations as mo

    rec = _Rec(out)
    for bs in (1, 2, 3, 4):
        for nb in (1, 2, 3, 4):
            data = np.arange(1.0, bs * bs * nb + 1)
            blocks = [data[b * bs * bs: (b + 1) * bs * bs].reshape(bs, bs) for b in range(nb)]
            for target, fn, tr in (("csr", mo.csr_matrix_from_dense_blocks, False), ("csc", mo.csc_matrix_from_dense_blocks, True)):
                exp = _dense_blockdiag([b.T if tr else b for b in blocks])
                det = dict(block_size=bs, num_blocks=nb, target=target)
                ok, M = _call(rec, target + "_from_dense_blocks", fn, data.copy(), bs, nb, **det)
                cls = f"dense_blocks/{target}/bs{bs}"
                if ok:
                    if not sps.issparse(M) or M.format != target or M.shape != exp.shape or not _eqm(M, exp):
                        rec.bad(target + "_from_dense_blocks", f"{target}_matrix_from_dense_blocks differs from dense block diagonal",
                                expected=exp.tolist(), observed=_obs(M), **det)
                        cls = "VIOLATION"
                else:
                    cls = "VIOLATION"
                out.ev(cls, ("db", bs, nb, target) if bs > 1 and nb > 1 else None)
                # documented size check
                try:
                    fn(np.arange(1.0, bs * bs * nb + 2), bs, nb)
                    rec.bad("dense_blocks-size", "incompatible data size accepted", **det)
                    out.ev("VIOLATION")
                except ValueError:
                    out.ev("dense_blocks/size-rejected")
                except Exception as e:  # noqa: BLE001
                    rec.bad("dense_blocks-size", "incompatible data size raised " + repr(e), **det)
                    out.ev("VIOLATION")


def run_dia_blocks(case, out):
    from porepy.numerics.linalg import matrix_operations as mo

    rec = _Rec(out)
    for L in (1, 2, 3):
        for sizes in itertools.product((1, 2, 3), repeat=L):
            for zero_at in [None] + list(range(L)):
                vals = []
                for b, s in enumerate(sizes):
                    v = np.arange(1.0, s + 1) + 10 * b
                    if zero_at == b:
                        v[0] = 0.0
                    vals.append(v)
                blocks = [sps.dia_matrix((v.copy(), 0), shape=(v.size, v.size)) for v in vals]
                exp = np.diag(np.concatenate(vals))
                det = dict(diagonals=[v.tolist() for v in vals])
                ok, M = _call(rec, "sparse_dia_from_sparse_blocks", mo.sparse_dia_from_sparse_blocks, blocks, **det)
                cls = f"dia_blocks/n{L}/{'zero' if zero_at is not None else 'nonzero'}"
                if ok:
                    if not sps.issparse(M) or M.format != "dia" or M.shape != exp.shape or not _eq(M.toarray(), exp):
                        rec.bad("sparse_dia_from_sparse_blocks", "sparse_dia_from_sparse_blocks differs from numpy.diag", **det)
                        cls = "VIOLATION"
                else:
                    cls = "VIOLATION"
                out.ev(cls, ("dia", sizes, zero_at) if L > 1 else None)
    # documented rejections
    d = sps.dia_matrix((np.array([1.0, 2.0]), 0), shape=(2, 2))
    for label, blk in (("csr block", sps.csr_matrix(np.eye(2))), ("off-diagonal", sps.dia_matrix((np.array([[1.0, 2.0]]), [1]), shape=(2, 2)))):
        try:
            mo.sparse_dia_from_sparse_blocks([d, blk])
            rec.bad("dia-reject", "sparse_dia_from_sparse_blocks accepted a " + label)
            out.ev("VIOLATION")
        except ValueError:
            out.ev("dia_blocks/rejected")
        except Exception as e:  # noqa: BLE001
            rec.bad("dia-reject", label + " raised " + repr(e))
            out.ev("VIOLATION")


# -------------------------------------------------------------------------- index helpers


def run_rle(case, out):
    from porepy.numerics.linalg import matrix_operations as mo

    rec = _Rec(out)
    # rldecode on 1-d input == numpy.repeat
    for L in (1, 2, 3, 4):
        A = np.array([10, 20, 30, 40][:L])
        for n in itertools.product((0, 1, 2, 3), repeat=L):
            exp = np.repeat(A, n)
            zero = 0 in n
            tag = "rldecode-zero-count" if zero else "rldecode"
            det = dict(A=A.tolist(), n=list(n))
            ok, B = _call(rec, tag, mo.rldecode, A.copy(), np.array(n, dtype=int), **det)
            cls = f"rldecode/{'zero-counts' if zero else 'positive'}"
            if ok:
                if not _eq(B, exp):
                    rec.bad(tag, "rldecode differs from numpy.repeat", expected=exp.tolist(), observed=np.asarray(B).tolist(), **det)
                    cls = "VIOLATION"
            else:
                cls = "VIOLATION"
            out.ev(cls, ("rld", n) if (zero or len(set(n)) > 1) else None)
    # rlencode on 2-d input
    for m in (1, 2):
        for k in (1, 2, 3, 4, 5):
            for bits in itertools.product((0, 1), repeat=m * k):
                A = np.array(bits).reshape(m, k)
                det = dict(A=A.tolist())
                ok, res = _call(rec, "rlencode", mo.rlencode, A.copy(), **det)
                cls = f"rlencode/m{m}"
                if ok:
                    bad = None
                    try:
                        Cm, num = res
                        Cm, num = np.asarray(Cm), np.asarray(num)
                        if Cm.ndim != 2 or Cm.shape[1] != num.size or np.any(num < 1):
                            bad = "malformed output"
                        elif not _eq(np.repeat(Cm, num, axis=1), A):
                            bad = "numpy.repeat of the output does not restore the input"
                        elif any(np.array_equal(Cm[:, i], Cm[:, i + 1]) for i in range(Cm.shape[1] - 1)):
                            bad = "adjacent equal columns not compressed"
                        elif m == 1:
                            back = mo.rldecode(Cm[0], num)
                            if not _eq(back, A[0]):
                                bad = "rldecode(rlencode(A)) != A"
                                cls = cls
                    except Exception as e:  # noqa: BLE001
                        bad = "unusable output " + repr(e)
                    if bad:
                        rec.bad("rlencode", "rlencode: " + bad, observed=repr(res), **det)
                        cls = "VIOLATION"
                    else:
                        cls += "/runs%d" % min(np.asarray(res[1]).size, 3)
                else:
                    cls = "VIOLATION"
                out.ev(cls, ("rle", m, k, bits) if len(set(bits)) > 1 else None)


def run_eip(case, out):
    from porepy.utils import array_operations as ao

    rec = _Rec(out)
    L = case["L"]
    V = (0, 1, 2, 3)
    combos = []
    for lo in itertools.product(V, repeat=L):
        for hi in itertools.product(V, repeat=L):
            combos.append((lo, hi))
    if L >= 2:  # documented broadcasting of a single bound
        for one in V:
            for other in itertools.product(V, repeat=L):
                combos.append(((one,), other))
                combos.append((other, (one,)))
    for lo, hi in combos:
        n = max(len(lo), len(hi))
        lo_b = lo * n if len(lo) == 1 and n > 1 else lo
        hi_b = hi * n if len(hi) == 1 and n > 1 else hi
        exp = [x for a, b in zip(lo_b, hi_b) for x in range(a, b)]
        det = dict(lo=list(lo), hi=list(hi))
        ok, res = _call(rec, "expand_index_pointers", ao.expand_index_pointers, np.array(lo, dtype=int), np.array(hi, dtype=int), **det)
        nonempty = [b > a for a, b in zip(lo_b, hi_b)]
        cls = "eip/" + ("none" if not any(nonempty) else "all" if all(nonempty) else "some-empty") + ("/bcast" if len(lo) != len(hi) else "")
        if ok:
            if not _eq(np.asarray(res).astype(int), np.array(exp, dtype=int)):
                rec.bad("expand_index_pointers", "expand_index_pointers differs from concatenated aranges",
                        expected=exp, observed=np.asarray(res).tolist(), **det)
                cls = "VIOLATION"
        else:
            cls = "VIOLATION"
        out.ev(cls, ("eip", lo, hi) if any(nonempty) and n > 1 else None)


def run_expand(case, out):
    from porepy.utils import array_operations as ao

    rec = _Rec(out)
    seqs = [s for s in G.ordered_subsets(4) if len(s) <= 3] + [[1, 1], [2, 0, 2], [3, 3, 3]]
    for s in seqs:
        ind = np.array(s, dtype=int)
        for nd in (1, 2, 3):
            for order in ("F", "C"):
                if order == "F":
                    exp = [nd * i + d for i in s for d in range(nd)]
                else:
                    exp = [nd * i + d for d in range(nd) for i in s]
                det = dict(ind=s, nd=nd, order=order)
                ok, res = _call(rec, "expand_indices_nd", ao.expand_indices_nd, ind.copy(), nd, order, **det)
                cls = f"expand_indices_nd/nd{nd}/{order}"
                if ok:
                    if not _eq(res, np.array(exp, dtype=int)):
                        rec.bad("expand_indices_nd", "expand_indices_nd differs", expected=exp, observed=np.asarray(res).tolist(), **det)
                        cls = "VIOLATION"
                else:
                    cls = "VIOLATION"
                out.ev(cls, ("xnd", tuple(s), nd, order) if nd > 1 and len(s) > 1 else None)
        for n in (1, 2, 3):
            for inc in (1, 5, 200):
                exp = [x + inc * t for x in s for t in range(n)]
                det = dict(x=s, n=n, increment=inc)
                ok, res = _call(rec, "expand_indices_add_increment", ao.expand_indices_add_increment, ind.copy(), n, inc, **det)
                cls = f"expand_add_increment/n{n}"
                if ok:
                    if not _eq(res, np.array(exp, dtype=int)):
                        rec.bad("expand_indices_add_increment", "expand_indices_add_increment differs", expected=exp,
                                observed=np.asarray(res).tolist(), **det)
                        cls = "VIOLATION"
                else:
                    cls = "VIOLATION"
                out.ev(cls, ("xinc", tuple(s), n, inc) if n > 1 and len(s) > 1 else None)


def run_bdi(case, out):
    from porepy.numerics.linalg import matrix_operations as mo

    rec = _Rec(out)
    for L in (1, 2, 3):
        for m in itertools.product((1, 2, 3), repeat=L):
            # one argument: square blocks, the column index of every entry, row by row
            exp = []
            o = 0
            for s in m:
                exp += list(range(o, o + s)) * s
                o += s
            det = dict(m=list(m))
            ok, res = _call(rec, "block_diag_index", mo.block_diag_index, np.array(m, dtype=int), **det)
            cls = f"block_diag_index/square/n{L}"
            if ok:
                if not _eq(res, np.array(exp, dtype=int)):
                    rec.bad("block_diag_index", "block_diag_index(m) differs", expected=exp, observed=np.asarray(res).tolist(), **det)
                    cls = "VIOLATION"
            else:
                cls = "VIOLATION"
            out.ev(cls, ("bdi1", m) if L > 1 else None)
            for n in itertools.product((1, 2, 3), repeat=L):
                ei, ej = [], []
                ro = co = 0
                for a, b in zip(m, n):
                    for cc in range(b):
                        for rr in range(a):
                            ei.append(ro + rr)
                            ej.append(co + cc)
                    ro += a
                    co += b
                det = dict(m=list(m), n=list(n))
                ok, res = _call(rec, "block_diag_index", mo.block_diag_index, np.array(m, dtype=int), np.array(n, dtype=int), **det)
                cls = f"block_diag_index/rect/n{L}"
                if ok:
                    good = isinstance(res, tuple) and len(res) == 2 and _eq(res[0], np.array(ei)) and _eq(res[1], np.array(ej))
                    if not good:
                        rec.bad("block_diag_index", "block_diag_index(m, n) differs", expected=[ei, ej], observed=repr(res), **det)
                        cls = "VIOLATION"
                else:
                    cls = "VIOLATION"
                out.ev(cls, ("bdi2", m, n) if L > 1 else None)


# ------------------------------------------------------------------------------ dtype axis

DTYPES = ("bool", "int32", "int64", "float64", "complex128")


def _dense_dt(r, c, mask, dt, base=0):
    """Dense block of dtype ``dt``: True / integers / integers + 0.25 / integers + 0.5j."""
    D = np.zeros((r, c), dtype=dt)
    for i in range(r):
        for j in range(c):
            if mask & (1 << (i * c + j)):
                v = base + 1 + i * c + j
                D[i, j] = True if dt == "bool" else v if dt.startswith("int") else v + 0.25 if dt == "float64" else v + 0.5j
    return D


def _build_dt(D, mask, fmt):
    """Sparse matrix of the dtype of D storing exactly the positions of ``mask``."""
    r, c = D.shape
    rows = [i for i in range(r) for j in range(c) if mask & (1 << (i * c + j))]
    cols = [j for i in range(r) for j in range(c) if mask & (1 << (i * c + j))]
    vals = np.array([D[i, j] for i, j in zip(rows, cols)], dtype=D.dtype)
    M = sps.coo_matrix((vals, (np.array(rows, dtype=np.int32), np.array(cols, dtype=np.int32))), shape=(r, c), dtype=D.dtype)
    return M if fmt == "coo" else M.asformat(fmt)


def _same_values(M, exp):
    """Values of a sparse result equal the dense numpy reference (numpy promotion), compared in
    complex128 so that any lost precision (truncated fraction, dropped imaginary part, ints
    collapsed to bool) shows."""
    if not sps.issparse(M) or G.is_wellformed(M) is not None or tuple(M.shape) != exp.shape:
        return False
    return bool(np.array_equal(np.asarray(M.toarray()).astype(np.complex128), exp.astype(np.complex128)))


def _dt_cls(dts):
    return "same" if len(set(dts)) == 1 else "first-narrower" if np.result_type(*dts) != np.dtype(dts[0]) else "first-widest"


def run_dt_blocks(case, out):
    """Block lists with mixed dtypes in every order: sparse blocks, dia blocks."""
    from porepy.numerics.linalg import matrix_operations as mo

    rec = _Rec(out)
    d0 = DTYPES[case["first_dtype"]]
    pats = [(1, 1, 0b1), (1, 2, 0b11), (2, 1, 0b11), (2, 2, 0b1011)]
    seqs = []
    for p0 in pats:
        for p1 in pats:
            for d1 in DTYPES:
                seqs.append(((p0, p1), (d0, d1)))
    for p0 in pats[2:]:
        for p1 in pats[1:3]:
            for p2 in pats[:2]:
                for d1 in DTYPES:
                    for d2 in DTYPES:
                        seqs.append(((p0, p1, p2), (d0, d1, d2)))
    for blocks, dts in seqs:
        dens = [_dense_dt(r, c, m, dt, base=10 * (i + 1)) for i, ((r, c, m), dt) in enumerate(zip(blocks, dts))]
        R, C = sum(d.shape[0] for d in dens), sum(d.shape[1] for d in dens)
        exp = np.zeros((R, C), dtype=np.result_type(*dts))
        i = j = 0
        for d in dens:
            exp[i: i + d.shape[0], j: j + d.shape[1]] = d
            i, j = i + d.shape[0], j + d.shape[1]
        for fmt in ("csr", "csc", "coo"):
            for target, fn in (("csr", mo.csr_matrix_from_sparse_blocks), ("csc", mo.csc_matrix_from_sparse_blocks)):
                real = [_build_dt(d, m, fmt) for d, (_, _, m) in zip(dens, blocks)]
                originals, dig = list(real), [G.digest(b) for b in real]
                det = dict(blocks=[np.asarray(d).astype(np.complex128).real.tolist() for d in dens], dtypes=list(dts),
                           block_format=fmt, target=target)
                ok, M = _call(rec, target + "_from_sparse_blocks/dtype", fn, real, pure=(), **det)
                cls = f"dtype/sparse_blocks/{target}/n{len(blocks)}/{_dt_cls(dts)}"
                if ok:
                    bad = None
                    if [G.digest(b) for b in originals] != dig:
                        bad = "a block was modified"
                    elif not sps.issparse(M) or M.format != target:
                        bad = "result is not a %s matrix" % target
                    elif not _same_values(M, exp):
                        bad = "values differ from the dense block diagonal matrix under numpy promotion (result dtype %s)" % M.dtype
                    if bad:
                        rec.bad(target + "_from_sparse_blocks/dtype", f"{target}_matrix_from_sparse_blocks: " + bad,
                                expected=_cjson(exp), observed=_obs_c(M), **det)
                        cls = "VIOLATION"
                else:
                    cls = "VIOLATION"
                out.ev(cls, ("dtsb", blocks, dts, fmt, target) if len(set(dts)) > 1 else None)
    # diagonal blocks of mixed dtypes
    for L in (2, 3):
        for rest in itertools.product(DTYPES, repeat=L - 1):
            dts = (d0,) + rest
            vals = [np.diag(_dense_dt(s, s, (1 << (s * s)) - 1, dt, base=10 * b)).copy() for b, (s, dt) in enumerate(zip((2, 1, 2), dts))]
            blocks = [sps.dia_matrix((v.reshape(1, -1).copy(), [0]), shape=(v.size, v.size), dtype=v.dtype) for v in vals]
            exp = np.diag(np.concatenate(vals))
            det = dict(dtypes=list(dts), diagonals=[_cjson(v) for v in vals])
            ok, M = _call(rec, "sparse_dia_from_sparse_blocks/dtype", mo.sparse_dia_from_sparse_blocks, blocks, **det)
            cls = f"dtype/dia_blocks/n{L}/{_dt_cls(dts)}"
            if ok:
                if not _same_values(M, exp):
                    rec.bad("sparse_dia_from_sparse_blocks/dtype", "sparse_dia_from_sparse_blocks: values differ from numpy.diag of the "
                            "concatenated diagonals under numpy promotion", expected=_cjson(exp), observed=_obs_c(M), **det)
                    cls = "VIOLATION"
            else:
                cls = "VIOLATION"
            out.ev(cls, ("dtdia", dts) if len(set(dts)) > 1 else None)


def _cjson(a):
    a = np.asarray(a)
    if np.iscomplexobj(a):
        return [np.real(a).tolist(), np.imag(a).tolist()]
    return a.astype(float).tolist()


def _obs_c(M):
    if not sps.issparse(M) or G.is_wellformed(M) is not None:
        return _obs(M)
    return {"dtype": str(M.dtype), "values": _cjson(M.toarray())}


def run_dt_stack(case, out):
    """stack_mat, stack_diag, merge_matrices with operands of different dtypes."""
    from porepy.numerics.linalg import matrix_operations as mo

    rec = _Rec(out)
    for da in DTYPES:
        for db in DTYPES:
            for fmt in FMTS:
                DA = _dense_dt(2, 2, 0b1011, da)
                # --- stacks: dense reference = numpy.vstack / hstack / block (promotion)
                for diag in (False, True):
                    shapes_b = [(1, 2) if fmt == "csr" else (2, 1)] if not diag else [(1, 2), (2, 1), (2, 2)]
                    for br, bc in shapes_b:
                        bm = (1 << (br * bc)) - 1 - (1 if br * bc == 4 else 0)
                        DB = _dense_dt(br, bc, bm, db, base=20)
                        A, B = _build_dt(DA, 0b1011, fmt), _build_dt(DB, bm, fmt)
                        det = dict(A=_cjson(DA), B=_cjson(DB), dtypes=[da, db], format=fmt)
                        if diag:
                            exp = np.zeros((2 + br, 2 + bc), dtype=np.result_type(da, db))
                            exp[:2, :2], exp[2:, 2:] = DA, DB
                            ok, C = _call(rec, "stack_diag/dtype", mo.stack_diag, A, B, **det)
                            name = "stack_diag"
                        else:
                            exp = np.vstack((DA, DB)) if fmt == "csr" else np.hstack((DA, DB))
                            ok, _ = _call(rec, "stack_mat/dtype", mo.stack_mat, A, B, pure=(1,), **det)
                            C, name = A, "stack_mat"
                        cls = f"dtype/{name}/{fmt}/{_dt_cls((da, db))}"
                        if ok:
                            if not _same_values(C, exp):
                                rec.bad(name + "/dtype", f"{name}: values differ from dense stacking under numpy promotion",
                                        expected=_cjson(exp), observed=_obs_c(C), **det)
                                cls = "VIOLATION"
                        else:
                            cls = "VIOLATION"
                        out.ev(cls, ("dtst", name, da, db, fmt, br, bc) if da != db else None)
                # --- merge: dense reference = in-place assignment A[lines] = B, which keeps the
                # dtype of A (numpy casts B); complex into real is not tried (numpy warns and drops)
                if db == "complex128" and da != "complex128":
                    out.ev("skipped:complex-into-real")
                    continue
                for lines in ([0], [1], [0, 1], [1, 0]):
                    for ldt in (np.int32, np.int64):
                        k = len(lines)
                        br, bc = (k, 2) if fmt == "csr" else (2, k)
                        bm = (1 << (br * bc)) - 1 - (2 if br * bc == 4 else 0)
                        DB = _dense_dt(br, bc, bm, db, base=20)
                        A, B = _build_dt(DA, 0b1011, fmt), _build_dt(DB, bm, fmt)
                        exp = DA.copy()
                        with np.errstate(all="ignore"):
                            if fmt == "csr":
                                exp[lines, :] = DB
                            else:
                                exp[:, lines] = DB
                        det = dict(A=_cjson(DA), B=_cjson(DB), dtypes=[da, db], format=fmt, lines=lines,
                                   lines_dtype=np.dtype(ldt).name)
                        ok, _ = _call(rec, "merge_matrices/dtype", mo.merge_matrices, A, B, np.array(lines, dtype=ldt), fmt,
                                      pure=(1, 2, 3), **det)
                        cls = f"dtype/merge/{fmt}/{_dt_cls((da, db))}/{np.dtype(ldt).name}"
                        if ok:
                            if not _same_values(A, exp):
                                rec.bad("merge_matrices/dtype", "merge_matrices: values differ from the dense in-place assignment "
                                        "A[lines] = B (dtype of A)", expected=_cjson(exp), observed=_obs_c(A), **det)
                                cls = "VIOLATION"
                        else:
                            cls = "VIOLATION"
                        out.ev(cls, ("dtmg", da, db, fmt, tuple(lines), np.dtype(ldt).name) if da != db or ldt is np.int32 else None)


def run_dt_misc(case, out):
    """Single-matrix utilities on every dtype: nothing may be truncated."""
    from porepy.numerics.linalg import matrix_operations as mo

    rec = _Rec(out)
    for dt in DTYPES:
        for fmt in ("csr", "csc", "coo"):
            D = _dense_dt(2, 3, 0b101101, dt)
            det = dict(matrix=_cjson(D), dtype=dt, format=fmt)
            for nd in (1, 2, 3):
                A = _build_dt(D, 0b101101, fmt)
                ok, Kp = _call(rec, "sparse_kronecker_product/dtype", mo.sparse_kronecker_product, A, nd, **det)
                cls = f"dtype/kron/{dt}/nd{nd}"
                if ok:
                    if not _same_values(Kp, np.kron(D, np.eye(nd))):
                        rec.bad("sparse_kronecker_product/dtype", "sparse_kronecker_product differs from numpy.kron(A, eye(nd))",
                                nd=nd, observed=_obs_c(Kp), **det)
                        cls = "VIOLATION"
                else:
                    cls = "VIOLATION"
                out.ev(cls, ("dtkron", dt, fmt, nd))
            for name, fn in (("copy", mo.copy), ("optimized_compressed_storage", mo.optimized_compressed_storage)):
                A = _build_dt(D, 0b101101, fmt)
                ok, C = _call(rec, name + "/dtype", fn, A, **det)
                cls = f"dtype/{name}/{dt}"
                if ok:
                    if not _same_values(C, D):
                        rec.bad(name + "/dtype", name + ": values changed", observed=_obs_c(C), **det)
                        cls = "VIOLATION"
                else:
                    cls = "VIOLATION"
                out.ev(cls, ("dt" + name, dt, fmt))
            if fmt != "coo":
                n = 2 if fmt == "csr" else 3
                for ind in ([n - 1, 0], [0]):
                    for idt in (np.int32, np.int64):
                        A = _build_dt(D, 0b101101, fmt)
                        exp = D[ind, :] if fmt == "csr" else D[:, ind]
                        ok, S = _call(rec, "slice_sparse_matrix/dtype", mo.slice_sparse_matrix, A, np.array(ind, dtype=idt), **det)
                        cls = f"dtype/slice/{dt}/{np.dtype(idt).name}"
                        if ok:
                            if not _same_values(S, exp):
                                rec.bad("slice_sparse_matrix/dtype", "slice_sparse_matrix: values differ from dense slicing",
                                        index=ind, observed=_obs_c(S), **det)
                                cls = "VIOLATION"
                        else:
                            cls = "VIOLATION"
                        out.ev(cls, ("dtslice", dt, fmt, tuple(ind), np.dtype(idt).name))
        # dense blocks: one data array of this dtype
        for bs, nb in ((1, 2), (2, 2), (3, 1), (2, 3)):
            base = np.arange(1, bs * bs * nb + 1)
            data = (base % 2 == 1) if dt == "bool" else base.astype(dt) + (0.25 if dt == "float64" else 0.5j if dt == "complex128" else 0)
            data = np.asarray(data, dtype=dt)
            blocks = [data[b * bs * bs: (b + 1) * bs * bs].reshape(bs, bs) for b in range(nb)]
            for target, fn, tr in (("csr", mo.csr_matrix_from_dense_blocks, False), ("csc", mo.csc_matrix_from_dense_blocks, True)):
                exp = np.zeros((bs * nb, bs * nb), dtype=dt)
                for b, blk in enumerate(blocks):
                    exp[b * bs: (b + 1) * bs, b * bs: (b + 1) * bs] = blk.T if tr else blk
                det = dict(dtype=dt, block_size=bs, num_blocks=nb, target=target)
                ok, M = _call(rec, target + "_from_dense_blocks/dtype", fn, data.copy(), bs, nb, **det)
                cls = f"dtype/dense_blocks/{target}/{dt}"
                if ok:
                    if not _same_values(M, exp):
                        rec.bad(target + "_from_dense_blocks/dtype", f"{target}_matrix_from_dense_blocks: values differ",
                                expected=_cjson(exp), observed=_obs_c(M), **det)
                        cls = "VIOLATION"
                else:
                    cls = "VIOLATION"
                out.ev(cls, ("dtdb", dt, bs, nb, target))


RUN = {
    "dt_blocks": run_dt_blocks, "dt_stack": run_dt_stack, "dt_misc": run_dt_misc,
    "slice": run_slice, "zero": run_zero, "merge": run_merge, "stack": run_stack, "misc": run_misc,
    "sparse_blocks": run_sparse_blocks, "dense_blocks": run_dense_blocks, "dia_blocks": run_dia_blocks,
    "rle": run_rle, "eip": run_eip, "expand": run_expand, "bdi": run_bdi,
}


def run_case(case) -> Outcome:
    out = Outcome()
    RUN[case["fn"]](case, out)
    if not out.samples:
        out.samples.append({"case": case})
    return out


KF = {
    "merge_matrices-unsorted": "C35-merge-unsorted-lines",
    "rldecode-zero-count": "C35-rldecode-zero-counts",
}


def known_finding(case, viol):
    # Both defects found by this check (tags merge_matrices-unsorted, rldecode-zero-count) are
    # fixed in /repo (07edd6681); nothing is masked any more.
    return None
