"""C01 — forward-mode AD values and Jacobians are exact.

Engine E (programs x points): every expression tree up to the declared depth over the
alphabet of ``mc.oracles.grpA_adexpr`` is evaluated with porepy's ``AdArray`` /
``ad.functions`` and compared with an independent complex-step evaluator written on plain
numpy (which is itself cross-checked against sympy on all depth-1 programs and a
representative set of depth-2 programs; a disagreement there is a harness error).
"""

from __future__ import annotations

import numpy as np

from mc.core import Outcome
from mc.oracles import grpA_adexpr as G

PROPERTY = "C01"
LEVEL = "exploration"
RULE = (
    "all expression trees letter2(letter1(X)) and letter(X) over the letter alphabet "
    "(unary minus; sparse matrix @ in 5 formats x square/rectangular x spmatrix/sparray; "
    "10 row slicings (int, negative int, slices, negative slice, integer ndarrays without and with "
    "negative / repeated / unsorted entries, boolean ndarray, Python list with a negative entry); "
    "24 library functions; + - * / ** with AdArray, float, int, float-array "
    "and int-array partners on either admissible side; maximum in all pairings), plus "
    "op(r1(X), r2(Y)) for representative letters r1, r2 and op in + - * / ** maximum; plus "
    "DAG programs w=r1(X), z=r2(Y), f=g(w,z), f o w and w o f (o in + - * /; g over + - * / ** "
    "and all maximum pairings, both operand orders) in which the object w is used twice; every "
    "operand of every operation is fingerprinted before and after (purity oracle); every "
    "letter(X) and letter2(letter1(X)) with letter1 format-preserving (minus, +-*/ scalar) "
    "also for leaves X = AdArray(J z0, J) whose Jacobian J is supplied directly in dia "
    "(banded / shifted off-diagonals), bsr, lil, dok, coo with duplicates, csr with unsorted "
    "indices and explicit zeros, csc; square n x n and wide n x 2n (oracle: affine function "
    "of hidden independents z); every program containing a letter with a guarded derivative formula (l2_norm, safe_power, abs, "
    "heaviside*, characteristic_function, maximum) additionally at special points with exact "
    "0.0 / 1.0 / -1.0 entries (single zero component in every position of non-zero 2- and "
    "3-vectors); each "
    "program at every size n and every lattice point; shape-inconsistent trees are not "
    "programs; points on kinks / outside smooth domains are skipped (trivial). "
    "Non-trivial = distinct (program, n) evaluated at an in-domain point where the true "
    "Jacobian has a non-zero off the two diagonals d/dx_i, d/dy_i of row i or whose tree "
    "uses two different rule classes"
)
ASSUMPTIONS = [
    "independent variables are built with pp.ad.initAdArrays([x, y]) (the public constructor)",
    "numpy-array-on-the-left arithmetic (documented DO NOT in AdArray) is excluded; it belongs to C02",
    "reference Jacobian = complex-step derivative (h=1e-30) of an independent numpy evaluator with "
    "piecewise-analytic continuations; validated against sympy diff in 'selfcheck' cases",
    "points closer than 1e-6 to a kink or domain edge are skipped",
    "tolerance 1e-7 x (largest magnitude of any intermediate value or derivative of the reference); measured round-off floor over the whole thorough space: 3.9e-11 (tan(exp(exp(X))))",
]
BOUNDS = {
    "quick": "directly constructed leaves in 8 storage formats x {4x4, 3x6} x 8 format-preserving inner letters x full outer alphabet; DAG programs over 16 x 4 representative sub-results, n in {3,4}; depth <= 2 chains over the full letter alphabet, n in {3,4}, 5 points; joins over 14x14 representatives x 6 ops, n in {3,4}; sympy self-check of the oracle (depth 1 at n=2,3; depth 2 at n=3)",
    "thorough": "directly constructed leaves in 8 storage formats x {2,3,4 square; 3,4 wide} x 8 inner letters x full outer alphabet, plus joins over the representatives; DAG programs over 16 x 16 representative sub-results, n in {2,3,4,6}; depth <= 2 chains over the full letter alphabet, n in {1,2,3,4,6}, 9 points; joins op(l1(X), l2(Y)) over the full alphabet squared x 6 ops, n in {3,4}, and over 14x14 representatives for all n; depth-3 chains l3(r2(r1(X))) with l3 over the full alphabet and r1, r2 over 13 representatives, n in {3,4}; sympy self-check n in {2,3}",
}
MIN_CLASSES = 6
TOL = 1e-7

SIZES = {"quick": (3, 4), "thorough": (1, 2, 3, 4, 6)}
LEAF_SIZES = {"quick": {"sq": (4,), "wide": (3,)}, "thorough": {"sq": (2, 3, 4), "wide": (3, 4)}}
JOIN_SIZES = {"quick": (3, 4), "thorough": (1, 2, 3, 4, 6)}
DEEP_SIZES = (3, 4)

# representative letters (one per rule class) for the thorough depth-3 chains
DEEP_REPS = [
    ["binR", "add", ["Y"]],
    ["binR", "mul", ["Y"]],
    ["binL", "div", ["Y"]],
    ["binR", "pow", ["c", 2.0]],
    ["binR", "pow", ["Y"]],
    ["fn", "exp"],
    ["fn", "log"],
    ["fn", "sin"],
    ["fn", "abs"],
    ["maxR", ["Y"]],
    ["fn", "l2_norm2"],
    ["mm", "csc", "sq", "m"],
    ["get", "st"],
]


def cases(tier):
    L = G.letters()
    out = []
    for n in SIZES[tier]:
        for inner in range(-1, len(L)):
            out.append({"kind": "chain", "n": n, "inner": inner, "tier": tier})
    for n in JOIN_SIZES[tier]:
        for i in range(len(G.JOIN_REPS)):
            out.append({"kind": "join", "n": n, "left": i, "tier": tier})
    for fmt in G.LEAF_FORMATS:
        for shape in G.LEAF_SHAPES:
            for n in LEAF_SIZES[tier][shape]:
                for i in range(len(G.LEAF_INNER)):
                    out.append({"kind": "leaf", "n": n, "fmt": fmt, "shape": shape, "inner": i, "tier": tier})
                if tier == "thorough":
                    for i in range(len(G.JOIN_REPS)):
                        out.append({"kind": "leafjoin", "n": n, "fmt": fmt, "shape": shape, "left": i, "tier": tier})
    for n in JOIN_SIZES["quick"] if tier == "quick" else (2, 3, 4, 6):
        for i in range(len(G.DAG_REPS)):
            out.append({"kind": "dag", "n": n, "left": i, "tier": tier})
    if tier == "thorough":
        for n in DEEP_SIZES:
            for i in range(len(DEEP_REPS)):
                for j in range(len(DEEP_REPS)):
                    out.append({"kind": "deep", "n": n, "l1": i, "l2": j, "tier": tier})
            for i in range(len(L)):
                out.append({"kind": "fulljoin", "n": n, "left": i, "tier": tier})
    for n in (2, 3):
        for inner in range(-1, len(L)):
            if n == 3 or inner < 0 or tier == "thorough":
                out.append({"kind": "selfcheck", "n": n, "inner": inner, "tier": tier})
    return out


def _programs(case):
    """The programs of one case (shape-consistent ones only)."""
    L = G.letters()
    n = case["n"]
    progs = []
    if case["kind"] in ("chain", "selfcheck"):
        base = ["X"]
        if case["inner"] >= 0:
            base = G.apply_letter(L[case["inner"]], base)
            try:
                G.size_of(base, n)
            except ValueError:
                return []
        if case["kind"] == "chain":
            progs = [G.apply_letter(l, base) for l in L]
        else:
            # self-check: the depth-1 program itself, and depth-2 over representative outer letters
            if case["inner"] < 0:
                progs = [G.apply_letter(l, base) for l in L]
            else:
                progs = [G.apply_letter(l, base) for l in DEEP_REPS]
    elif case["kind"] == "leaf":
        li = G.LEAF_INNER[case["inner"]]
        base = ["X"] if li is None else G.apply_letter(li, ["X"])
        progs = [G.apply_letter(l, base) for l in L]
    elif case["kind"] in ("join", "leafjoin"):
        left = ["X"] if G.JOIN_REPS[case["left"]] is None else G.apply_letter(G.JOIN_REPS[case["left"]], ["X"])
        for r in G.JOIN_REPS:
            right = ["Y"] if r is None else G.apply_letter(r, ["Y"])
            for op in G.JOIN_OPS:
                progs.append(["max", left, right] if op == "max" else ["bin", op, left, right])
    elif case["kind"] == "dag":
        r2s = G.DAG_REPS if case["tier"] == "thorough" else [G.DAG_REPS[i] for i in (0, 2, 5, 10)]
        progs = G.dag_programs(G.DAG_REPS[case["left"]], r2s)
    elif case["kind"] == "fulljoin":
        left = G.apply_letter(L[case["left"]], ["X"])
        for r in L:
            right = G.apply_letter(r, ["Y"])
            for op in G.JOIN_OPS:
                progs.append(["max", left, right] if op == "max" else ["bin", op, left, right])
    elif case["kind"] == "deep":
        e1 = G.apply_letter(DEEP_REPS[case["l1"]], ["X"])
        e2 = G.apply_letter(DEEP_REPS[case["l2"]], e1)
        progs = [G.apply_letter(l, e2) for l in L]
    ok = []
    for p in progs:
        try:
            G.size_of(p, n)
        except ValueError:
            continue
        ok.append(p)
    return ok


def _root_class(p):
    t = p[0]
    if t == "bin":
        return p[1]
    if t == "fn":
        return "fn"
    return t


def _selfcheck(case, out: Outcome):
    n = case["n"]
    pts = G.points(n, "quick")
    npts = len(pts)
    pts = pts + G.special_points(n, "thorough")
    for p in _programs(case):
        # two ordinary points; programs with a guarded letter also at every special point
        for k in (0, 3) + (tuple(range(npts, len(pts))) if G.ops_in(p) & G.GUARDED else ()):
            x, y = pts[k]
            try:
                val, jac = G.Oracle(x, y).run(p)
            except G.Skip as s:
                out.ev("selfcheck-skipped:" + s.why.split(":")[0])
                continue
            sval, sjac = G.sympy_reference(p, x, y)
            scale = max(1.0, float(np.max(np.abs(sjac))) if sjac.size else 1.0, float(np.max(np.abs(sval))))
            if val.shape != sval.shape or jac.shape != sjac.shape or np.max(np.abs(val - sval)) > 1e-10 * scale or (
                jac.size and np.max(np.abs(jac - sjac)) > 1e-10 * scale
            ):
                raise RuntimeError(
                    f"oracle disagreement (complex-step vs sympy) on {G.show(p)} n={n} point={k}: "
                    f"{val} {sval} {jac.tolist()} {sjac.tolist()}"
                )
            out.ev("selfcheck-agree", ("sc", G.show(p), n, k))


def run_case(case) -> Outcome:
    out = Outcome()
    if case["kind"] == "selfcheck":
        _selfcheck(case, out)
        return out

    import porepy as pp

    n = case["n"]
    pts = G.points(n, case["tier"])
    nbase = len(pts)
    pts = pts + G.special_points(n, case["tier"])
    progs = _programs(case)
    guarded = [p for p in progs if G.ops_in(p) & G.GUARDED]
    nviol = 0
    for k, (x, y) in enumerate(pts):
        affine = None
        if case["kind"] in ("leaf", "leafjoin"):
            # leaves with user-supplied Jacobians: X = Jx z, Y = Jy z, z hidden independents
            Jx, Jy = G.leaf_dense_jacobians(case["fmt"], case["shape"], n)
            z0 = x if case["shape"] == "sq" else np.concatenate([x, y])
            affine = (z0, Jx, Jy)
            import scipy.sparse as sps

            X0 = pp.ad.AdArray(Jx @ z0, G.leaf_sparse(case["fmt"], Jx))
            Y0 = pp.ad.AdArray(Jy @ z0, sps.csr_matrix(Jy))
            if X0.jac.format != G.leaf_sparse(case["fmt"], Jx).format:
                raise RuntimeError("AdArray changed the storage format of the supplied Jacobian")
        else:
            X0, Y0 = pp.ad.initAdArrays([x, y])
        # special points (exact 0, +-1 entries) only for programs with a guarded letter
        for p in progs if k < nbase else guarded:
            orc = G.Oracle(x, y, affine)
            try:
                val, jac = orc.run(p)
            except G.Skip as s:
                out.ev("skipped:" + s.why)
                continue
            X = pp.ad.AdArray(X0.val.copy(), X0.jac.copy())
            Y = pp.ad.AdArray(Y0.val.copy(), Y0.jac.copy())
            bad = None
            fmt = "?"
            try:
                with np.errstate(all="ignore"):
                    muts = []
                    res = G.impl_eval(p, X, Y, muts)
                if not isinstance(res, pp.ad.AdArray):
                    bad = ("result is not an AdArray", {"type": type(res).__name__})
                else:
                    fmt = getattr(res.jac, "format", type(res.jac).__name__)
                    J = res.jac.toarray() if hasattr(res.jac, "toarray") else np.asarray(res.jac)
                    v = np.asarray(res.val)
                    scale = orc.scale
                    if v.shape != val.shape or J.shape != jac.shape:
                        bad = ("wrong shape", {"val_shape": list(v.shape), "jac_shape": list(J.shape), "expected": [list(val.shape), list(jac.shape)]})
                    elif not np.all(np.abs(v - val) <= TOL * scale):
                        bad = ("value differs from numpy evaluation", {"observed": v, "expected": val})
                    elif not np.all(np.abs(J - jac) <= TOL * scale):
                        bad = ("Jacobian differs from true derivative", {"observed": J, "expected": jac, "max_err": float(np.max(np.abs(J - jac)))})
                    if muts:
                        if bad is None:
                            bad = ("operand mutated", {"error": muts[0], "result": "value and Jacobian of the result itself are right"})
                        else:
                            bad[1]["operand_mutated"] = muts[0]
            except G.MalformedJacobian as exc:
                bad = ("Jacobian is a malformed sparse matrix", {"error": str(exc)[:300]})
            except Exception as exc:  # in-domain expression must evaluate
                bad = ("evaluation raised", {"error": repr(exc)[:300]})
            if bad is not None:
                nviol += 1
                if nviol <= 12:
                    out.violate(bad[0], program=G.show(p), ast=p, n=n, point=k, x=x, y=y, **bad[1])
                out.ev("VIOLATION:" + bad[0])
                continue
            m = val.size
            offdiag = False
            if jac.size:
                mask = np.ones_like(jac, dtype=bool)
                for i in range(min(m, n)):
                    mask[i, i] = False
                    if n + i < jac.shape[1]:
                        mask[i, n + i] = False
                offdiag = bool(np.any(np.abs(jac[mask]) > 0))
            ops = G.ops_in(p)
            key = (G.show(p), n) if (offdiag or len(ops) >= 2) else None
            out.ev(f"ok:{_root_class(p)}:jac={fmt}", key)
            if not out.samples and key is not None and k == 0 and case["kind"] == "chain":
                out.samples.append({"program": G.show(p), "n": n, "x": x.tolist(), "y": y.tolist(), "value": val.tolist(), "jacobian": jac.tolist()})
    if nviol > 12:
        out.extra["violations_not_listed"] = nviol - 12
    return out


def known_finding(case, viol):
    """Predicates on the concrete program only."""
    prog = viol.get("program", "")
    what = viol.get("what", "")
    err = viol.get("error", "") or ""
    if "_a @" in prog and what == "evaluation raised" and any(
        t in err for t in ("getformat", "one dimensional", "dimension mismatch", "inconsistent shapes")
    ):
        # a scipy sparse *array* (sparray) coefficient makes the Jacobian a sparray, which the
        # matrix utilities do not support: only the known exceptions are downgraded; a wrong
        # value or any other exception on such a program stays a violation.
        return "C01-sparray-jacobian"
    return None
