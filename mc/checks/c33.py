"""C33 — tessellation overlaps partition cell measures.

Engine E.

``line``  every ordered pair of node sets on [0,1] from the lattice {k/6} (both ends
          included: 2^5 x 2^5 pairs), embedded along three directions and with reversed node
          order: ``line_tessellation`` and ``match_1d`` (averaged / integrated / None).
``tri``   every ordered pair of triangulations of a common lattice polygon (square and
          L-shape; all triangulations of corner points + up to two extra lattice points,
          uniform and stretched lattice), in the plane and embedded in tilted planes:
          ``triangulations``, ``match_2d`` (averaged / integrated / None) and
          ``surface_tessellations`` (polygons and simplexes).

Oracle: exact rational overlap measures (interval overlap, Sutherland-Hodgman clipping
with Fractions). Demanded: overlaps >= 0 and equal to the exact overlap, every pair with
positive exact overlap is reported, per-cell sums equal the cell measure for both
tessellations, averaged rows / integrated columns sum to one.
"""

from __future__ import annotations

import itertools

import numpy as np

from mc.core import Outcome, jsonable
from mc.oracles import grpJ_exact as X
from mc.oracles import grpJ_tess as T

F = X.F

PROPERTY = "C33"
LEVEL = "exploration"
RULE = (
    "1-d: one case per (embedding, node set A), all 32 node sets B; 2-d: one case per (domain, "
    "lattice stretch, embedding, triangulation A), all triangulations B of the same domain. "
    "Non-trivial = the two tessellations differ and some cell of one overlaps at least two cells "
    "of the other; distinct by (embedding, A, B)."
)
ASSUMPTIONS = [
    "both tessellations cover exactly the same segment / polygon and are conforming (no hanging nodes)",
    "measures compared to 1e-12 relative to the domain measure (inputs are small rationals; the "
    "overlaps are computed in double precision by segments_3d / shapely)",
    "match_*(scaling=None) is called with tol = 1e-8; entries whose physical overlap lies within a factor 2 of tol are not judged",
    "match_*('averaged' / 'integrated') is called with tol = 1e-4: the documentation applies tol only when scaling is None, so overlaps "
    "and cells smaller than tol (scaled embeddings 2^-13, 2^-10, 2^-7; 1-d sliver pairs) must still be counted",
    "touching cells (zero-measure intersection) may or may not be reported, but only with weight 0 (<= 1e-12)",
]
BOUNDS = {
    "quick": "1-d: lattice {k/6}, 32 x 32 node sets, embeddings {x-axis, (1,2,2) with offset, z-axis, x-axis with B reversed}; "
             "2-d: all triangulations of the square [0,2]^2 with <= 2 extra points of {edge midpoints, centre} in the xy-plane, with <= 1 extra point "
             "for the stretched lattice (2->3) and the embeddings {plane normal (1,2,2), skew plane normal (1,-1,1)}; L-polygon with <= 1 extra point "
             "for (identity, xy), (identity, normal (1,2,2)), (stretched, skew)",
    "thorough": "(both tiers: arbitrary numbering: 1-d hand-built grids with every cell permutation x 3 node numberings of the first resp. second "
                "tessellation (quick: <= 3 cells each, and 4-cell second grids against 2-cell first grids; thorough: <= 4 cells each), 2-d renumbered "
                "triangle / node order for the square with <= 1 (thorough 2) extra points in the xy-plane; 1-d embeddings also {x-axis shifted to 1024 with cells 2^-7/6, (1,2,2) x 1024}; 2-d xy-plane also shifted to (1024,-2048) with "
                "lattice spacing 2^-7 and magnified x 1024, tolerances relative to coordinate magnitude / cell size; four sharp embedded pairs) 1-d as quick; 2-d: square with <= 3 extra points, L-polygon with <= 2 extra points, both stretches x all three embeddings",
}
MIN_CLASSES = 6
CHUNK = 2

TOL = 1e-12

def _viol(out: Outcome, what: str, cls: str = "other", **detail):
    """At most two written-out violations per case, kind of message and classification
    (registered finding / other), so that reports of a registered finding can never crowd
    out a violation of another kind; the rest is counted."""
    kind = (cls, what.split(":")[0].split(" raised")[0])
    cnt = out.extra.setdefault("_cap", {})
    cnt[kind] = cnt.get(kind, 0) + 1
    if cnt[kind] <= 2:
        out.violate(what, **detail)
    else:
        name = "suppressed_violation_reports" + ("" if cls == "other" else "_known_kind")
        out.extra[name] = out.extra.get(name, 0) + 1


# ------------------------------------------------------------------ 1-d

LINE_EMBED = [
    ("x", (0.0, 0.0, 0.0), (1.0, 0.0, 0.0), False),
    ("122", (1.0, -2.0, 3.0), (1.0, 2.0, 2.0), False),
    ("z", (0.0, 1.0, 0.0), (0.0, 0.0, -2.0), False),
    ("x-rev", (0.0, 0.0, 0.0), (1.0, 0.0, 0.0), True),
    # scale / translation axis (tolerances below are relative to cell size and coordinate magnitude)
    ("x-small-shift", (1024.0, 0.0, 0.0), (2.0**-7, 0.0, 0.0), False),
    ("122-big", (0.0, 0.0, 0.0), (1024.0, 2048.0, 2048.0), False),
    ("x-2^-13", (0.0, 0.0, 0.0), (2.0**-13, 0.0, 0.0), False),  # cells of length 2e-5 .. 1.2e-4, below TOL_WEIGHTED
]
NL = 6


def _nodes_1d(mask):
    return [0] + [k for k in range(1, NL) if mask >> (k - 1) & 1] + [NL]


# ------------------------------------------------------------------ 2-d

SQUARE = ((0, 0), (2, 0), (2, 2), (0, 2))
SQUARE_EXTRA = ((1, 0), (2, 1), (1, 2), (0, 1), (1, 1))
LPOLY = ((0, 0), (2, 0), (2, 1), (1, 1), (1, 2), (0, 2))
LPOLY_EXTRA = ((1, 0), (0, 1))
DOMAINS = {
    "square": (SQUARE, SQUARE_EXTRA, (((0, 0), (2, 0), (2, 2), (0, 2)),)),
    "L": (LPOLY, LPOLY_EXTRA, (((0, 0), (2, 0), (2, 1), (0, 1)), ((0, 1), (1, 1), (1, 2), (0, 2)))),
}
STRETCH = {"id": {0: 0, 1: 1, 2: 2}, "s3": {0: 0, 1: 1, 2: 3}}
PLANE_EMBED = [
    ("xy", (0.0, 0.0, 0.0), (1.0, 0.0, 0.0), (0.0, 1.0, 0.0)),
    ("n122", (1.0, 1.0, 0.0), (2.0, -1.0, 0.0), (2.0, 4.0, -5.0)),
    ("skew", (0.0, 2.0, 0.0), (1.0, 1.0, 0.0), (0.0, 1.0, 1.0)),
    # scale / translation axis, in the xy-plane with exactly representable coordinates
    ("xy-shift-small", (1024.0, -2048.0, 0.0), (2.0**-7, 0.0, 0.0), (0.0, 2.0**-7, 0.0)),
    ("xy-big", (0.0, 0.0, 0.0), (1024.0, 0.0, 0.0), (0.0, 1024.0, 0.0)),
    ("xy-2^-10", (0.0, 0.0, 0.0), (2.0**-10, 0.0, 0.0), (0.0, 2.0**-10, 0.0)),  # cell areas ~1e-6
    ("xy-2^-3", (0.0, 0.0, 0.0), (0.125, 0.0, 0.0), (0.0, 0.125, 0.0)),
]


def _combos(tier):
    """(domain, stretch, embedding index, maximal number of extra points)."""
    if tier == "thorough":
        return [(d, s, e, {"square": 3, "L": 2}[d]) for d in DOMAINS for s in STRETCH for e in range(3)] \
            + [("square", s, e, 2) for s in STRETCH for e in (3, 4, 5, 6)]
    out = []
    for s in STRETCH:
        for e in range(3):
            out.append(("square", s, e, 2 if (s, e) == ("id", 0) else 1))
    out += [("square", "id", 3, 1), ("square", "s3", 4, 1), ("square", "s3", 5, 1), ("square", "id", 6, 1)]
    out += [("L", "id", 0, 1), ("L", "id", 1, 1), ("L", "s3", 2, 1)]
    return out


def _tess_list(domain, stretch, max_extra):
    """All (points, triangles) of the domain: every subset of extra points up to max_extra,
    every triangulation using exactly these points. Deterministic order."""
    corners, extra, pieces = DOMAINS[domain]
    st = STRETCH[stretch]
    m = lambda p: (st[p[0]], st[p[1]])
    pieces_s = tuple(tuple(m(q) for q in piece) for piece in pieces)
    out = []
    for k in range(max_extra + 1):
        for ex in itertools.combinations(extra, k):
            pts = tuple(m(p) for p in corners + ex)
            for tri in T.all_triangulations(pts, pieces_s):
                out.append((pts, tri))
    return out


# Sharp letters kept in every tier: embedded pairs in which a vertex of one triangle lies on an
# edge of a triangle of the other tessellation (found by the thorough tier; the in-plane rotation
# of match_2d perturbs such contacts by 1e-16, see known_finding below).
SHARP_PAIRS = [
    ("square", "id", 2, ((0, 0), (2, 0), (2, 2), (0, 2), (2, 1), (1, 1)), ((0, 1, 5), (0, 3, 5), (1, 4, 5), (2, 3, 5), (2, 4, 5)),
     ((0, 0), (2, 0), (2, 2), (0, 2), (2, 1)), ((0, 1, 3), (1, 3, 4), (2, 3, 4))),
    ("square", "id", 1, ((0, 0), (2, 0), (2, 2), (0, 2), (1, 2), (1, 1)), ((0, 1, 5), (0, 3, 4), (0, 4, 5), (1, 2, 4), (1, 4, 5)),
     ((0, 0), (2, 0), (2, 2), (0, 2), (1, 2)), ((0, 1, 2), (0, 2, 4), (0, 3, 4))),
    ("square", "s3", 1, ((0, 0), (3, 0), (3, 3), (0, 3)), ((0, 1, 3), (1, 2, 3)),
     ((0, 0), (3, 0), (3, 3), (0, 3), (0, 1), (1, 1)), ((0, 1, 4), (1, 2, 3), (1, 3, 5), (1, 4, 5), (3, 4, 5))),
    ("square", "s3", 2, ((0, 0), (3, 0), (3, 3), (0, 3), (3, 1)), ((0, 1, 3), (1, 3, 4), (2, 3, 4)),
     ((0, 0), (3, 0), (3, 3), (0, 3), (1, 0), (1, 1)), ((0, 3, 5), (0, 4, 5), (1, 2, 3), (1, 3, 5), (1, 4, 5))),
]


def cases(tier):
    out = []
    for k in range(len(SHARP_PAIRS)):
        out.append({"kind": "tri_pair", "pair": k, "domain": SHARP_PAIRS[k][0], "stretch": SHARP_PAIRS[k][1], "embed": SHARP_PAIRS[k][2]})
    for e in range(len(LINE_EMBED)):
        for a in range(2 ** (NL - 1)):
            out.append({"kind": "line", "embed": e, "a": a})
    for domain, stretch, e, mx in _combos(tier):
        n = len(_tess_list(domain, stretch, mx))
        for a in range(n):
            out.append({"kind": "tri", "domain": domain, "stretch": stretch, "embed": e, "a": a, "max_extra": mx})
    for k in range(len(SLIVER_PAIRS)):
        out.append({"kind": "line_sliver", "pair": k})
    # arbitrary cell / node numbering (a pp.Grid numbers its cells and nodes arbitrarily)
    masks = [m for m in range(2 ** (NL - 1)) if bin(m).count("1") <= 3]  # <= 4 cells
    if tier == "thorough":
        for a in masks:
            out.append({"kind": "line_perm", "a": a, "bcells": [1, 2, 3, 4]})
    else:
        for a in masks:
            nc = bin(a).count("1") + 1
            if nc <= 3:
                out.append({"kind": "line_perm", "a": a, "bcells": [1, 2, 3]})
            if nc == 2:
                out.append({"kind": "line_perm", "a": a, "bcells": [4]})
    mx = 2 if tier == "thorough" else 1
    for a in range(len(_tess_list("square", "id", mx))):
        out.append({"kind": "tri_perm", "domain": "square", "stretch": "id", "embed": 0, "a": a, "max_extra": mx})
    return out


# ------------------------------------------------------------------ shared checks


def _check_overlaps(out, name, got, exact, meas_a, meas_b, scale, cond=1.0):
    """got: list of (i, j, w). exact: dict (i, j) -> Fraction (> 0 only). Returns error or None."""
    seen = {}
    for (i, j, w) in got:
        i, j, w = int(i), int(j), float(w)
        if (i, j) in seen:
            return f"{name}: pair ({i},{j}) reported twice"
        seen[(i, j)] = w
        if not w >= 0.0:
            return f"{name}: negative / nan overlap {w} for pair ({i},{j})"
        ex = float(exact.get((i, j), 0)) * scale
        if abs(w - ex) > TOL * cond * scale * float(sum(meas_a)):
            return f"{name}: overlap of pair ({i},{j}) is {w}, exact {ex}"
    for (i, j), ex in exact.items():
        if (i, j) not in seen:
            return f"{name}: pair ({i},{j}) with exact overlap {float(ex) * scale} is not reported"
    tot = float(sum(meas_a)) * scale
    for i, m in enumerate(meas_a):
        s = sum(w for (a, b), w in seen.items() if a == i)
        if abs(s - float(m) * scale) > TOL * cond * tot:
            return f"{name}: overlaps of cell {i} of the first tessellation sum to {s}, its measure is {float(m) * scale}"
    for j, m in enumerate(meas_b):
        s = sum(w for (a, b), w in seen.items() if b == j)
        if abs(s - float(m) * scale) > TOL * cond * tot:
            return f"{name}: overlaps of cell {j} of the second tessellation sum to {s}, its measure is {float(m) * scale}"
    return None


TOL_WEIGHTED = 1e-4  # tol handed to match_* for 'averaged' / 'integrated': it must not influence these scalings
TOL_PATTERN = 1e-8  # tol handed to match_* for scaling=None


def _check_match(out, name, fn, g_new, g_old, exact, meas_new, meas_old, cond=1.0, mscale=1.0):
    """averaged rows sum to 1 and equal overlap/|new cell|; integrated columns sum to 1 and equal
    overlap/|old cell|; None = indicator of positive overlap. Returns a list of
    (message, detail) with one entry per failing scaling; detail carries the matrix returned."""
    nn, no = len(meas_new), len(meas_old)
    fails = []
    for scaling in ("averaged", "integrated", None):
        try:
            M = fn(g_new, g_old, TOL_PATTERN if scaling is None else TOL_WEIGHTED, scaling=scaling)
            A = np.asarray(M.todense(), dtype=float)
        except Exception as e:
            fails.append((f"{name}(scaling={scaling}) raised {e!r}", {"scaling": scaling}))
            continue
        det = {"scaling": scaling, "got_matrix": A}
        if A.shape != (nn, no):
            fails.append((f"{name}(scaling={scaling}): shape {A.shape}, expected {(nn, no)}", det))
            continue
        E = np.zeros((nn, no))
        for (i, j), ex in exact.items():
            E[i, j] = float(ex / meas_new[i]) if scaling == "averaged" else float(ex / meas_old[j]) if scaling == "integrated" else 1.0
        if scaling is None:
            # physical overlap = exact overlap * mscale; entries whose overlap is within a factor 2
            # of the tolerance are inside the tolerance band: not judged
            for (i, j), ex in exact.items():
                phys = float(ex) * mscale
                if phys < TOL_PATTERN / 2:
                    E[i, j] = 0.0
                elif phys <= 2 * TOL_PATTERN:
                    E[i, j] = A[i, j]
        det["exact_matrix"] = E
        if scaling == "averaged" and np.abs(A.sum(axis=1) - 1.0).max() > TOL * 10 * cond:
            fails.append((f"{name}(averaged): row sums {A.sum(axis=1).tolist()} are not one", det))
        elif scaling == "integrated" and np.abs(A.sum(axis=0) - 1.0).max() > TOL * 10 * cond:
            fails.append((f"{name}(integrated): column sums {A.sum(axis=0).tolist()} are not one", det))
        elif not np.all(A >= 0):
            fails.append((f"{name}(scaling={scaling}): negative entry", det))
        elif np.abs(A - E).max() > TOL * 10 * cond:
            i, j = np.unravel_index(np.argmax(np.abs(A - E)), A.shape)
            fails.append((f"{name}(scaling={scaling}): entry ({i},{j}) is {A[i, j]}, exact {E[i, j]}", det))
    return fails


# ------------------------------------------------------------------ line cases


def _grid_1d(nodes_t, origin, direction, reverse):
    import porepy as pp

    t = np.array(nodes_t, dtype=float) / NL
    g = pp.TensorGrid(t)
    o, d = np.array(origin), np.array(direction)
    tt = t[::-1] if reverse else t
    g.nodes = o[:, None] + np.outer(d, tt)
    g.compute_geometry()
    return g


def _grid_1d_perm(nodes_t, origin, direction, cell_perm, node_perm):
    """Hand-built 1-d grid on the sorted positions nodes_t / NL: cell c = [t_c, t_c+1] gets the
    number cell_perm[c], node k gets the number node_perm[k] (faces keep the position order).
    Returns the grid, the segment array (2, n_cells) for line_tessellation and the exact cells in
    the new numbering."""
    import porepy as pp
    import scipy.sparse as sps

    t = np.array(nodes_t, dtype=float) / NL
    n = len(t)
    o, d = np.array(origin), np.array(direction)
    nodes = np.zeros((3, n))
    for k in range(n):
        nodes[:, node_perm[k]] = o + d * t[k]
    fn = sps.csc_matrix((np.ones(n, dtype=bool), (np.array([node_perm[k] for k in range(n)]), np.arange(n))), shape=(n, n))
    rows, cols, vals = [], [], []
    for c in range(n - 1):
        rows += [c, c + 1]
        cols += [cell_perm[c], cell_perm[c]]
        vals += [-1, 1]
    cf = sps.csc_matrix((np.array(vals), (np.array(rows), np.array(cols))), shape=(n, n - 1))
    g = pp.Grid(1, nodes, fn, cf, "permuted 1d grid")
    g.compute_geometry()
    lines = np.zeros((2, n - 1), dtype=int)
    cells = [None] * (n - 1)
    for c in range(n - 1):
        lines[:, cell_perm[c]] = (node_perm[c], node_perm[c + 1])
        cells[cell_perm[c]] = (F(nodes_t[c], NL), F(nodes_t[c + 1], NL))
    return g, lines, cells


def _numberings(n):
    """Node numberings used with every cell permutation: identity, reversed, evens-then-odds."""
    ident = list(range(n))
    inter = [0] * n
    for new, old in enumerate(list(range(0, n, 2)) + list(range(1, n, 2))):
        inter[old] = new
    return [("id", ident), ("rev", ident[::-1]), ("inter", inter)]


def _run_line_perm(case, out: Outcome):
    from porepy.geometry.intersections import line_tessellation
    from porepy.grids.match_grids import match_1d

    name, origin, direction, _ = LINE_EMBED[1]  # generic direction (1,2,2) with offset
    length = float(np.linalg.norm(direction))
    cond = 1.0 + float(np.abs(origin).max()) / (length / NL)
    na = _nodes_1d(case["a"])
    masks_b = [m for m in range(2 ** (NL - 1)) if bin(m).count("1") + 1 in case["bcells"]]

    def variants(nodes_t):
        nc = len(nodes_t) - 1
        for cp in itertools.permutations(range(nc)):
            for nname, npm in _numberings(nc + 1):
                yield cp, nname, npm

    def evaluate(A, B, tag, key):
        (ga, la, cells_a), (gb, lb, cells_b) = A, B
        exact = {}
        for i, ca in enumerate(cells_a):
            for j, cb in enumerate(cells_b):
                ov = T.interval_overlap(ca, cb)
                if ov > 0:
                    exact[(i, j)] = ov
        meas_a = [abs(c[1] - c[0]) for c in cells_a]
        meas_b = [abs(c[1] - c[0]) for c in cells_b]
        try:
            got = line_tessellation(ga.nodes.copy(), gb.nodes.copy(), la, lb)
            bad = _check_overlaps(out, "line_tessellation", got, exact, meas_a, meas_b, length, cond)
        except Exception as e:
            bad = f"line_tessellation raised {e!r}"
        if bad is None:
            fails = _check_match(out, "match_1d", match_1d, ga, gb, exact, meas_a, meas_b, cond, length)
            bad = fails[0][0] if fails else None
        if bad:
            _viol(out, bad, "other", embedding=name, nodes_first=ga.nodes, segments_first=la, nodes_second=gb.nodes, segments_second=lb,
                  origin=origin, direction=direction, permuted=tag)
            out.ev("line-perm/VIOLATION", key)
        else:
            out.ev(f"line-perm/{tag}/" + ("multi" if len(exact) > max(len(cells_a), len(cells_b)) else "simple"), key)

    ident_a = _grid_1d_perm(na, origin, direction, list(range(len(na) - 1)), list(range(len(na))))
    for b in masks_b:
        nb = _nodes_1d(b)
        ident_b = _grid_1d_perm(nb, origin, direction, list(range(len(nb) - 1)), list(range(len(nb))))
        for cp, nname, npm in variants(nb):
            monotone = list(cp) in (sorted(cp), sorted(cp, reverse=True))
            key = None if (monotone and nname == "id") else ("line_perm", "B", case["a"], b, cp, nname)
            evaluate(ident_a, _grid_1d_perm(nb, origin, direction, list(cp), npm), "second/" + ("monotone" if monotone else "shuffled") + "/" + nname, key)
        for cp, nname, npm in variants(na):
            monotone = list(cp) in (sorted(cp), sorted(cp, reverse=True))
            if monotone and nname == "id" and list(cp) == sorted(cp):
                continue  # identical to the first loop's identity evaluation
            key = ("line_perm", "A", case["a"], b, cp, nname)
            evaluate(_grid_1d_perm(na, origin, direction, list(cp), npm), ident_b, "first/" + ("monotone" if monotone else "shuffled") + "/" + nname, key)
    if not out.samples:
        out.samples.append({"nodes_a": [x / NL for x in na], "partners": "all node sets with %s cells, every cell permutation x 3 node numberings" % case["bcells"]})


# 1-d pairs with a genuine overlap far below TOL_WEIGHTED (but far above TOL_PATTERN and rounding)
SLIVER_PAIRS = [
    ([0.0, 0.5, 1.0], [0.0, 0.5 + 5e-5, 1.0]),
    ([0.0, 0.5, 1.0], [0.0, 0.5 - 5e-5, 1.0]),
    ([0.0, 0.5 + 5e-5, 1.0], [0.0, 0.5, 1.0]),
    ([0.0, 0.25, 0.5, 1.0], [0.0, 0.25 + 1e-6, 0.5 - 2e-5, 1.0]),
    ([0.0, 0.5, 0.5 + 3e-5, 1.0], [0.0, 0.5 + 1e-5, 1.0]),
    ([0.0, 1.0], [0.0, 1e-5, 1.0 - 1e-5, 1.0]),
]


def _run_line_sliver(case, out: Outcome):
    import porepy as pp
    from porepy.geometry.intersections import line_tessellation
    from porepy.grids.match_grids import match_1d

    ta, tb = SLIVER_PAIRS[case["pair"]]
    for dname, axis, sign in (("x", 0, 1.0), ("z-", 2, -1.0), ("y", 1, 1.0)):
        grids = []
        for t in (ta, tb):
            g = pp.TensorGrid(np.array(t))
            nodes = np.zeros((3, len(t)))
            nodes[axis] = sign * np.array(t)  # exact: the coordinates are the parameters
            g.nodes = nodes
            g.compute_geometry()
            grids.append(g)
        ga, gb = grids
        cells_a = [(X.fr(ta[i]), X.fr(ta[i + 1])) for i in range(len(ta) - 1)]
        cells_b = [(X.fr(tb[i]), X.fr(tb[i + 1])) for i in range(len(tb) - 1)]
        exact = {}
        for i, ca in enumerate(cells_a):
            for j, cb in enumerate(cells_b):
                ov = T.interval_overlap(ca, cb)
                if ov > 0:
                    exact[(i, j)] = ov
        meas_a = [c[1] - c[0] for c in cells_a]
        meas_b = [c[1] - c[0] for c in cells_b]
        la = np.array([[i, i + 1] for i in range(len(ta) - 1)]).T
        lb = np.array([[i, i + 1] for i in range(len(tb) - 1)]).T
        key = ("line_sliver", case["pair"], dname)
        try:
            got = line_tessellation(ga.nodes.copy(), gb.nodes.copy(), la, lb)
            bad = _check_overlaps(out, "line_tessellation", got, exact, meas_a, meas_b, 1.0)
        except Exception as e:
            bad = f"line_tessellation raised {e!r}"
        if bad is None:
            fails = _check_match(out, "match_1d", match_1d, ga, gb, exact, meas_a, meas_b)
            bad = fails[0][0] if fails else None
        if bad:
            _viol(out, bad, "other", direction=dname, nodes_a=ta, nodes_b=tb, tol_for_weighted_scalings=TOL_WEIGHTED)
            out.ev("line-sliver/VIOLATION", key)
        else:
            out.ev("line-sliver/" + dname, key)
    if not out.samples:
        out.samples.append({"nodes_a": ta, "nodes_b": tb, "tol": TOL_WEIGHTED})


def _run_line(case, out: Outcome):
    from porepy.geometry.intersections import line_tessellation
    from porepy.grids.match_grids import match_1d

    name, origin, direction, rev_b = LINE_EMBED[case["embed"]]
    length = float(np.linalg.norm(direction))
    # conditioning of the input: coordinate magnitude relative to the smallest cell
    cond = 1.0 + float(np.abs(origin).max()) / (length / NL)
    na = _nodes_1d(case["a"])
    ga = _grid_1d(na, origin, direction, False)
    cells_a = [(F(na[i], NL), F(na[i + 1], NL)) for i in range(len(na) - 1)]
    for b in range(2 ** (NL - 1)):
        nb = _nodes_1d(b)
        gb = _grid_1d(nb, origin, direction, rev_b)
        cells_b = [(F(nb[i], NL), F(nb[i + 1], NL)) for i in range(len(nb) - 1)]
        if rev_b:
            # node k of the grid sits at t = reversed(nb)[k]: cell i spans reversed positions
            r = nb[::-1]
            cells_b = [(F(r[i], NL), F(r[i + 1], NL)) for i in range(len(r) - 1)]
        exact = {}
        for i, ca in enumerate(cells_a):
            for j, cb in enumerate(cells_b):
                ov = T.interval_overlap(ca, cb)
                if ov > 0:
                    exact[(i, j)] = ov
        meas_a = [abs(c[1] - c[0]) for c in cells_a]
        meas_b = [abs(c[1] - c[0]) for c in cells_b]
        nontrivial = na != nb and len(exact) > max(len(cells_a), len(cells_b))
        key = ("line", name, case["a"], b) if nontrivial else None
        # line_tessellation on the raw node / segment arrays of the two grids
        la = np.array([[i, i + 1] for i in range(len(na) - 1)]).T
        lb = np.array([[i, i + 1] for i in range(len(nb) - 1)]).T
        bad = None
        try:
            pa_, pb_ = ga.nodes.copy(), gb.nodes.copy()
            got = line_tessellation(pa_, pb_, la, lb)
            bad = _check_overlaps(out, "line_tessellation", got, exact, meas_a, meas_b, length, cond)
            if bad is None and not (np.array_equal(pa_, ga.nodes) and np.array_equal(pb_, gb.nodes)):
                bad = "line_tessellation modified its point arrays"
            nzero = sum(1 for g_ in got if float(g_[2]) <= TOL)
        except Exception as e:
            bad = f"line_tessellation raised {e!r}"
            nzero = 0
        if bad is None:
            na0, nb0 = ga.nodes.copy(), gb.nodes.copy()
            fails = _check_match(out, "match_1d", match_1d, ga, gb, exact, meas_a, meas_b, cond, length)
            bad = fails[0][0] if fails else None
            if bad is None and not (np.array_equal(na0, ga.nodes) and np.array_equal(nb0, gb.nodes)):
                bad = "match_1d modified the nodes of a grid"
        if bad:
            _viol(out, bad, "other", embedding=name, nodes_a=(np.array(na) / NL), nodes_b=(np.array(nb) / NL), origin=origin, direction=direction,
                        b_reversed=rev_b)
            out.ev("line/VIOLATION", key)
        else:
            rel = "same" if na == nb else "nested" if set(na) <= set(nb) or set(nb) <= set(na) else "crossing"
            out.ev(f"line/{name}/{rel}" + ("/touch0" if nzero else ""), key)
    if not out.samples:
        out.samples.append({"embedding": name, "nodes_a": [x / NL for x in na], "nodes_b": "all 32 subsets of {k/6} containing 0 and 1"})


# ------------------------------------------------------------------ triangle cases


def _embed_pts(pts, plane):
    _, o, u, v = plane
    o, u, v = np.array(o), np.array(u), np.array(v)
    xy = np.array(pts, dtype=float)
    return o[:, None] + np.outer(u, xy[:, 0]) + np.outer(v, xy[:, 1])


def _tri_grid(pts, tri, plane):
    import porepy as pp

    p3 = _embed_pts(pts, plane)
    g = pp.TriangleGrid(p3, np.array(tri, dtype=int).T.copy())
    g.compute_geometry()
    return g


def _grid_cell_triangles(g, pts):
    """Cells of the grid as index triples into pts (cell order of the grid, which need not
    be the order of the input triangle list)."""
    cn = g.cell_nodes().tocsc()
    return [tuple(sorted(int(k) for k in cn.indices[cn.indptr[c]:cn.indptr[c + 1]])) for c in range(g.num_cells)]


def _run_tri(case, out: Outcome):
    from porepy.geometry.intersections import surface_tessellations, triangulations
    from porepy.grids.match_grids import match_2d

    if case["kind"] == "tri_pair":
        sp = SHARP_PAIRS[case["pair"]]
        _tri_eval(case, out, (sp[3], sp[4]), [(sp[5], sp[6])])
    elif case["kind"] == "tri_perm":
        tess = _tess_list(case["domain"], case["stretch"], case["max_extra"])
        A = tess[case["a"]]
        # the second tessellation renumbered
        _tri_eval(case, out, A, [v for B in tess for v in _tri_variants(*B)], tag="perm-second")
        # the first tessellation renumbered
        for Av in _tri_variants(*A):
            _tri_eval(case, out, Av, tess, tag="perm-first")
    else:
        tess = _tess_list(case["domain"], case["stretch"], case["max_extra"])
        _tri_eval(case, out, tess[case["a"]], tess)


def _tri_variants(pts, tri):
    """Renumberings of one triangulation: triangle order (all permutations for <= 3 triangles,
    else reversed / rotated / evens-then-odds) x node numbering (identity, reversed,
    evens-then-odds), without the identity."""
    nt, npnt = len(tri), len(pts)
    if nt <= 3:
        orders = list(itertools.permutations(range(nt)))
    else:
        ident = list(range(nt))
        orders = [tuple(ident), tuple(ident[::-1]), tuple(ident[1:] + ident[:1]), tuple(ident[0::2] + ident[1::2])]
    out = []
    for order in orders:
        for nname, npm in _numberings(npnt):
            if list(order) == list(range(nt)) and nname == "id":
                continue
            new_pts = [None] * npnt
            for k in range(npnt):
                new_pts[npm[k]] = pts[k]
            new_tri = tuple(tuple(npm[k] for k in tri[i]) for i in order)
            out.append((tuple(new_pts), new_tri))
    return out


def _tri_eval(case, out: Outcome, A, partners, tag=None):
    from porepy.geometry.intersections import surface_tessellations, triangulations
    from porepy.grids.match_grids import match_2d

    plane = PLANE_EMBED[case["embed"]]
    _, o, u, v = plane
    jac = float(np.linalg.norm(np.cross(np.array(u), np.array(v))))
    cond = 1.0 + float(np.abs(o).max()) / min(float(np.linalg.norm(u)), float(np.linalg.norm(v)))
    pts_a, tri_a = A
    fa = [[T._f2(pts_a[k]) for k in t] for t in tri_a]
    area_a = [T.tri_area(t) for t in fa]
    dom_area = sum(area_a)
    ga = _tri_grid(pts_a, tri_a, plane)
    cells_ga = _grid_cell_triangles(ga, pts_a)
    for b, (pts_b, tri_b) in enumerate(partners):
        fb = [[T._f2(pts_b[k]) for k in t] for t in tri_b]
        area_b = [T.tri_area(t) for t in fb]
        exact = {}
        for i, ta in enumerate(fa):
            for j, tb in enumerate(fb):
                ov = T.overlap_area(ta, tb)
                if ov > 0:
                    exact[(i, j)] = ov
        nontrivial = (pts_a, tri_a) != (pts_b, tri_b) and len(exact) > max(len(fa), len(fb))
        key = ("tri", tag, case["domain"], case["stretch"], plane[0], case.get("a", case.get("pair")), pts_a[:2], tri_a[:2], b) if nontrivial else None
        bads = []
        ntouch = 0
        # (a) triangulations() on planar coordinates (only meaningful once per pair: do it for the xy embedding)
        if plane[0] == "xy":
            try:
                p1 = np.array(pts_a, dtype=float).T.copy()
                p2 = np.array(pts_b, dtype=float).T.copy()
                got = triangulations(p1, p2, np.array(tri_a, dtype=int).T.copy(), np.array(tri_b, dtype=int).T.copy())
                bad = _check_overlaps(out, "triangulations", got, exact, area_a, area_b, 1.0)
                if bad is None and not (np.array_equal(p1, np.array(pts_a, dtype=float).T) and np.array_equal(p2, np.array(pts_b, dtype=float).T)):
                    bad = "triangulations modified its point arrays"
                ntouch = sum(1 for g_ in got if float(g_[2]) <= TOL)
            except Exception as e:
                bad = f"triangulations raised {e!r}"
            if bad:
                bads.append(bad)
            # (c) surface_tessellations
            bad = _check_surface(surface_tessellations, fa, fb, exact, area_a, area_b, dom_area, out)
            if bad:
                bads.append(bad)
        # (b) match_2d on the embedded grids (cell order taken from the grids)
        gb = _tri_grid(pts_b, tri_b, plane)
        cells_gb = _grid_cell_triangles(gb, pts_b)
        ia = [[tuple(sorted(t)) for t in tri_a].index(c) for c in cells_ga]
        ib = [[tuple(sorted(t)) for t in tri_b].index(c) for c in cells_gb]
        ex_g = {}
        for ci, i in enumerate(ia):
            for cj, j in enumerate(ib):
                if (i, j) in exact:
                    ex_g[(ci, cj)] = exact[(i, j)]
        # cell volumes of the grids must be the exact areas times the Jacobian (harness sanity)
        if np.abs(ga.cell_volumes - np.array([float(area_a[i]) for i in ia]) * jac).max() > 1e-10 * jac:
            raise AssertionError("harness: embedded grid has unexpected cell volumes")
        na0, nb0 = ga.nodes.copy(), gb.nodes.copy()
        mfails = _check_match(out, "match_2d", match_2d, ga, gb, ex_g, [area_a[i] for i in ia], [area_b[j] for j in ib], cond, jac)
        if not (np.array_equal(na0, ga.nodes) and np.array_equal(nb0, gb.nodes)):
            bads.append("match_2d modified the nodes of a grid")
        common = dict(domain=case["domain"], stretch=case["stretch"], embedding=plane[0], points_a=pts_a, triangles_a=tri_a,
                      points_b=pts_b, triangles_b=tri_b)
        if bads or mfails:
            kinds = set()
            for bad in bads:
                _viol(out, bad, "other", **common)
                kinds.add("other")
            for msg, det in mfails:
                full = dict(common, cells_new=[tri_a[i] for i in ia], cells_old=[tri_b[j] for j in ib], **det)
                probe = {"what": msg}
                probe.update({k_: jsonable(v_) for k_, v_ in full.items()})
                kf = known_finding(case, probe)
                kinds.add(kf or "other")
                _viol(out, msg, kf or "other", **full)
            out.ev("tri/VIOLATION" + ("" if "other" in kinds else ":" + "+".join(sorted(kinds))), key)
        else:
            rel = "same" if (pts_a, tri_a) == (pts_b, tri_b) else "same-points" if pts_a == pts_b else "different-points"
            out.ev(f"tri/{case['domain']}/{plane[0]}/{tag or rel}" + ("/touch0" if ntouch else ""), key)
    if not out.samples:
        out.samples.append({"domain": case["domain"], "points_a": list(pts_a), "triangles_a": list(tri_a), "n_partners": len(partners)})


def _check_surface(surface_tessellations, fa, fb, exact, area_a, area_b, dom_area, out):
    def arr(t):
        return np.array([[float(p[0]) for p in t], [float(p[1]) for p in t]])

    for simplex in (False, True):
        try:
            polys, maps = surface_tessellations([[arr(t) for t in fa], [arr(t) for t in fb]], return_simplexes=simplex)
        except NotImplementedError:
            if simplex:
                # documented limitation (sub-polygon judged non-convex): observation only
                out.extra["simplex_not_implemented"] = out.extra.get("simplex_not_implemented", 0) + 1
                continue
            return "surface_tessellations(return_simplexes=False) raised NotImplementedError"
        except Exception as e:
            return f"surface_tessellations(return_simplexes={simplex}) raised {e!r}"
        name = f"surface_tessellations(return_simplexes={simplex})"
        if len(maps) != 2:
            return f"{name}: {len(maps)} mappings returned"
        A = np.asarray(maps[0].todense())
        B = np.asarray(maps[1].todense())
        n = len(polys)
        if A.shape != (n, len(fa)) or B.shape != (n, len(fb)):
            return f"{name}: mapping shapes {A.shape}, {B.shape} for {n} polygons"
        if not (np.all((A == 0) | (A == 1)) and np.all((B == 0) | (B == 1)) and np.all(A.sum(axis=1) == 1) and np.all(B.sum(axis=1) == 1)):
            return f"{name}: a sub-polygon is not mapped to exactly one polygon of each input set"
        areas = []
        for p in polys:
            q = [(X.fr(p[0, k]), X.fr(p[1, k])) for k in range(p.shape[1])]
            areas.append(float(abs(X.polygon_area2(q)) / 2))
        areas = np.array(areas)
        if simplex and any(p.shape[1] != 3 for p in polys):
            return f"{name}: a returned cell is not a triangle"
        tot = float(dom_area)
        if abs(areas.sum() - tot) > TOL * tot * 10:
            return f"{name}: sub-polygon areas sum to {areas.sum()}, domain area {tot}"
        # overlap per pair = sum of the sub-polygons mapped to the pair
        ov = A.T @ (areas[:, None] * B)
        E = np.zeros_like(ov, dtype=float)
        for (i, j), ex in exact.items():
            E[i, j] = float(ex)
        if np.abs(ov - E).max() > TOL * tot * 10:
            i, j = np.unravel_index(np.argmax(np.abs(ov - E)), ov.shape)
            return f"{name}: sub-polygons mapped to pair ({i},{j}) have total area {ov[i, j]}, exact overlap {E[i, j]}"
    return None


def run_case(case) -> Outcome:
    out = Outcome()
    if case["kind"] == "line":
        _run_line(case, out)
    elif case["kind"] in ("tri", "tri_pair", "tri_perm"):
        _run_tri(case, out)
    elif case["kind"] == "line_sliver":
        _run_line_sliver(case, out)
    elif case["kind"] == "line_perm":
        _run_line_perm(case, out)
    else:
        raise ValueError(case["kind"])
    out.extra.pop("_cap", None)
    return out


KNOWN_GEOS_TOUCHING = "C33-geos-overlay-touching-triangles"
KNOWN_GEOS_CONTAINED = "C33-geos-overlay-contained-triangle"


def _closed_intersect(P, Q) -> bool:
    """Closed convex polygons (exact vertices) have a common point: no edge line of either
    strictly separates them."""
    for A_, B_ in ((P, Q), (Q, P)):
        A_ = T._ccw(list(A_))
        for i in range(len(A_)):
            a, b = A_[i], A_[(i + 1) % len(A_)]
            if all(X.orient2d(a, b, q) < 0 for q in B_):
                return False
    return True


def _boundary_contact(P, Q) -> bool:
    """A vertex of one triangle lies on a closed edge of the other."""
    for A_, B_ in ((P, Q), (Q, P)):
        for v in A_:
            for i in range(len(B_)):
                if X.on_segment_2d(v, B_[i], B_[(i + 1) % len(B_)]):
                    return True
    return False


def known_finding(case, viol):
    """Registered finding: GEOS (shapely) overlay returns a wrong polygon for two triangles in
    boundary contact once match_2d has rotated them into the plane (1e-16 noise).

    Decided from the INPUT with the exact rational oracle. Key KNOWN_GEOS_TOUCHING iff the case is
    a triangle pair in any plane embedding, the violation is a match_2d matrix, and EVERY entry (i, j)
    that differs from the exact matrix belongs to two triangles whose exact intersection is
    non-empty with zero area, the reported value being the full area of one of the two triangles
    (to 1e-9; for scaling=None: a spurious 1). All other entries agree with the exact matrix, so
    the wrong row/column sums are fully explained by these entries. A second signature of the
    same mechanism (one triangle contained in the other with boundary contact, overlap reported
    as 0) yields KNOWN_GEOS_CONTAINED; it only counts if that key is registered."""
    try:
        # (also in the xy-plane: match_2d centres the nodes at their mean, which is not exactly
        # representable for e.g. six points, so the same 1e-16 noise reaches GEOS there)
        if not case or case.get("kind") not in ("tri", "tri_pair", "tri_perm"):
            return None
        what = viol.get("what", "")
        if not what.startswith("match_2d(") or "raised" in what or "got_matrix" not in viol:
            return None
        scaling = viol.get("scaling")
        pa = [tuple(p) for p in viol["points_a"]]
        pb = [tuple(p) for p in viol["points_b"]]
        cells_new = [tuple(t) for t in viol["cells_new"]]
        cells_old = [tuple(t) for t in viol["cells_old"]]
        if sorted(map(sorted, cells_new)) != sorted(map(sorted, viol["triangles_a"])) or \
                sorted(map(sorted, cells_old)) != sorted(map(sorted, viol["triangles_b"])):
            return None
        A = np.array(viol["got_matrix"], dtype=float)
        fa = [[T._f2(pa[k]) for k in t] for t in cells_new]
        fb = [[T._f2(pb[k]) for k in t] for t in cells_old]
        if A.shape != (len(fa), len(fb)):
            return None
        sig = set()
        for i, ta in enumerate(fa):
            for j, tb in enumerate(fb):
                ai, aj = T.tri_area(ta), T.tri_area(tb)
                ov = T.overlap_area(ta, tb)
                den = ai if scaling == "averaged" else aj if scaling == "integrated" else None
                exact_entry = float(ov / den) if den is not None else (1.0 if ov > 0 else 0.0)
                got = float(A[i, j])
                if abs(got - exact_entry) <= TOL * 10:
                    continue
                # a wrong entry: which signature?
                if ov == 0 and _closed_intersect(ta, tb):
                    if den is None:
                        ok = got == 1.0
                    else:
                        rep = got * float(den)  # reported overlap area
                        ok = min(abs(rep - float(ai)), abs(rep - float(aj))) <= 1e-9 * float(max(ai, aj))
                    if ok:
                        sig.add("touching")
                        continue
                if ov > 0 and ov == min(ai, aj) and _boundary_contact(ta, tb) and abs(got) <= TOL * 10:
                    sig.add("contained")
                    continue
                return None
        if sig == {"touching"}:
            return KNOWN_GEOS_TOUCHING
        if sig and sig <= {"touching", "contained"}:
            return KNOWN_GEOS_CONTAINED
    except Exception:
        return None
    return None
