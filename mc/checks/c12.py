"""C12 — TPFA is symmetric, conservative, and exact on K-orthogonal grids.

Engine E. One evaluation = one call of the real ``pp.Tpfa.discretize`` for one letter
(grid, permeability, Dirichlet/Neumann assignment).

Structural oracle (every letter): ``div @ flux`` symmetric; every interior face row of
``flux`` has exactly the two neighbour cells with values (v, -v); boundary face rows touch
only the adjacent cell; constant pressure with matching Dirichlet data (and zero Neumann
flux) gives zero flux on every face.

K-orthogonal oracle (Cartesian / tensor grids, diagonal K): positive diagonal and
non-positive off-diagonal of ``div @ flux``; ``flux`` and ``bound_flux`` equal those of
``pp.Mpfa`` (``bound_pressure_*`` are deliberately *not* compared between the methods);
for constant K: exact flux for the basis {1,x,y[,z]} and exact boundary pressure
reconstruction.

Periodic letters (``set_periodic_map`` on Cartesian / tensor grids): rows of an identified
face pair touch exactly the two coupled cells and carry one single transmissibility
(s_l * row_l + s_r * row_r == 0); symmetry, zero flux for constant pressure and MPFA
agreement as above; linear exactness only for fields that are periodic themselves.

Every evaluation also carries a purity oracle (bitwise digest of grid, tensor and boundary
condition objects around ``discretize``) and, on every 4th assignment, a reuse oracle (a
second ``discretize`` on the same data dictionary reproduces the matrices exactly).
"""

from __future__ import annotations

import numpy as np

from mc.core import Outcome
from mc.oracles import grpE_flow as F
from mc.oracles import grpE_grids as G

PROPERTY = "C12"
LEVEL = "exploration"
RULE = (
    "mixed-radix enumeration of (grid letter x node-offset pattern / affine image x K letter x "
    "Dirichlet/Neumann assignment); one evaluation = one Tpfa.discretize (+ one Mpfa.discretize on "
    "the K-orthogonal subset). Non-trivial = assignment with both Dirichlet and Neumann faces and "
    "(heterogeneous or anisotropic K, or non-Cartesian / non-uniform grid); distinct by (grid, K, assignment)."
)
ASSUMPTIONS = [
    "grids with >= 2 cells (every cell has an interior face, so 'positive diagonal' is well defined)",
    "Neumann data = outward integrated flux; Dirichlet data = p at the face centre",
    "tolerances: symmetry 1e-14 relative (measured: exact), zero flux / MPFA agreement / exactness "
    "1e-11 * |K||n|(1+|x|/h) (measured floor 2e-15)",
    "the statement compares flux and bound_flux with MPFA only; bound_pressure_cell legitimately differs",
]
BOUNDS = {
    "quick": (
        "structural: C(2,2), T(2,2) x 9 interior-node offsets, C(3,2) x 3 patterns, affine images, tensor grids "
        "with uneven spacing (2x2, 3x2), 1-d uniform and uneven; K in {I,diag,full,rot,hetdiag,hetfull}; all 2^|dF| "
        "assignments (|dF| <= 10). K-orthogonal: C(2,2), C(3,2), Tensor 2x2, Tensor 3x2, 1-d grids x {I,diag,hetdiag} x "
        "all assignments. Periodic letters (both parts): Tensor 2x2 /per-x, /per-y, Tensor 3x2 /per-x, /per-xy, C(3,3) /per-y, "
        "Tensor 2x2 /per-y scaled 1e-3. Scale axis: C(2,2)~ *1e-3, T(2,2) *1e3, Tensor 2x2 *1e-3, C(3,2) *1e3 (structural), "
        "Tensor 2x2 *1e-3, C(2,2) *1e3 (K-orthogonal). Purity digest on every evaluation, reuse on every 4th assignment. Embedded 2-d grids (tilted planes rx45/gen/gen2): structural with global 3x3 tensors, "
        "K-orthogonal with Q diag Q^T (homogeneous and cell-wise). Small cells: scale 1e-4, 1e-5, 1e-6 (both parts). "
        "3-d (side-wise U single flips): "
        "C(2,2,2), C(2,2,2)@shear, Tensor 2x2x2 uneven, Prism(1,1; 2 layers) structural; C(2,2,2), Tensor 2x2x2 K-orthogonal."
    ),
    "thorough": (
        "quick + 3-d tensor grid periodic in z / in x and y + C(3,3) (all 4096), 3-d: Tet(1,1,1) (all 4096, 2 node patterns), Tet(2,1,1), C(2,2,2) under "
        "{id,shear,rotscale}, 3-d tensor grid with uneven spacing: side-wise U single U pair flips; K-orthogonal 3-d: "
        "C(2,2,2), Tensor 2x2x2 x {I,diag,hetdiag}."
    ),
}
MIN_CLASSES = 6
CHUNK = 4

TOL = 1e-11
KS_ALL = ["I", "diag", "full", "rot", "hetdiag", "hetfull"]
KS_ORTH = ["I", "diag", "hetdiag"]

T22 = {"kind": "Tensor", "coords": [[0, 1, 3], [0, 2, 3]]}
T32 = {"kind": "Tensor", "coords": [[0, 0.5, 2, 3], [0, 1, 1.5]]}
T222 = {"kind": "Tensor", "coords": [[0, 1, 3], [0, 2, 3], [0, 0.5, 2]]}
L1U = {"kind": "C", "n": [3]}
L1N = {"kind": "Tensor", "coords": [[0, 1, 3, 3.5]]}


def _dim(spec):
    return len(spec["coords"]) if spec["kind"] == "Tensor" else (3 if spec["kind"] == "Prism" else len(spec["n"]))


def _emit(out, spec, K, part, aset, per_case):
    nb = G.num_boundary_faces(spec)
    dim = _dim(spec)
    size = (1 << nb) if aset == "all" else (1 << (2 * dim)) + 2 * nb + (nb * (nb - 1) if aset == "flip2" else 0)
    nch = max(1, (size + per_case - 1) // per_case)
    for i in range(nch):
        out.append({"grid": spec, "K": K, "part": part, "aset": aset, "chunk": [i, nch]})


def cases(tier):
    out: list = []
    offs2 = G.offsets(2)
    c22 = lambda **kw: dict({"kind": "C", "n": [2, 2]}, **kw)  # noqa: E731
    t22 = lambda **kw: dict({"kind": "T", "n": [2, 2]}, **kw)  # noqa: E731
    c32 = lambda **kw: dict({"kind": "C", "n": [3, 2]}, **kw)  # noqa: E731
    # structural part: TPFA only (cheap), every letter
    sgrids = []
    for mk in (c22, t22):
        for o in offs2:
            sgrids.append(mk(pert=[[4, o]]) if any(o) else mk())
        sgrids.append(mk(affine="shear"))
        sgrids.append(mk(affine="rotscale"))
    sgrids += [c32(), c32(pert=[[5, [1, -1]], [6, [0, 1]]]), c32(pert=[[5, [-1, -1]], [6, [1, 1]]]), T22, T32, L1U, L1N]
    for spec in sgrids:
        for K in KS_ALL:
            _emit(out, spec, K, "S", "all", 1024)
    # K-orthogonal part: TPFA + MPFA
    for spec in (c22(), c32(), T22, T32, L1U, L1N):
        for K in KS_ORTH:
            _emit(out, spec, K, "K", "all", 128)
    # periodic letters (uneven spacing: the two coupled cells have different half-transmissibilities)
    per = [dict(T22, periodic=[0]), dict(T22, periodic=[1]), dict(T32, periodic=[0]), dict(T32, periodic=[0, 1]),
           {"kind": "C", "n": [3, 3], "periodic": [1]}, dict(T22, periodic=[1], scale=1e-3)]
    for spec in per:
        for K in KS_ALL:
            _emit(out, spec, K, "S", "all", 1024)
        for K in KS_ORTH:
            _emit(out, spec, K, "K", "all", 128)
    # scale axis
    for spec in (c22(pert=[[4, [1, -1]]], scale=1e-3), t22(scale=1e3), dict(T22, scale=1e-3), c32(scale=1e3)):
        for K in KS_ALL:
            _emit(out, spec, K, "S", "all", 1024)
    for spec in (dict(T22, scale=1e-3), c22(scale=1e3)):
        for K in KS_ORTH:
            _emit(out, spec, K, "K", "all", 128)
    # embedded 2-d grids (tilted plane in 3-d): structural part with global 3x3 tensors; K-orthogonal part with tensors
    # that are diagonal in the plane coordinates (Q diag Q^T), homogeneous and heterogeneous
    emb = [c22(embed="gen"), t22(embed="gen2"), c22(pert=[[4, [1, -1]]], embed="rx45"), dict(T22, embed="gen")]
    for spec in emb:
        for K in ("Qplane", "full", "rot", "hetdiag", "hetfull"):
            _emit(out, spec, K, "S", "all", 1024)
    for spec in (c22(embed="gen"), dict(T22, embed="gen2"), c32(embed="rx45")):
        for K in ("I", "Qdiag", "Qhetdiag"):
            _emit(out, spec, K, "K", "all", 128)
    # very small cells (absolute thresholds on squared distances would bite here)
    for spec in (c22(scale=1e-4), dict(T22, scale=1e-4), c22(pert=[[4, [1, -1]]], scale=1e-6), dict(T32, scale=1e-6)):
        for K in KS_ALL:
            _emit(out, spec, K, "S", "all", 1024)
    for spec in (dict(T22, scale=1e-4), c22(scale=1e-6), dict(L1N, scale=1e-5), dict(T22, periodic=[0], scale=1e-5)):
        for K in KS_ORTH:
            _emit(out, spec, K, "K", "all", 128)
    # 3-d letters with quadrilateral faces (and Neumann faces carrying non-zero flux in the exactness part)
    c222q = {"kind": "C", "n": [2, 2, 2]}
    for spec in (c222q, dict(c222q, affine="shear"), T222, {"kind": "Prism", "n": [1, 1], "z": [0, 1, 2.5]}):
        for K in KS_ALL:
            _emit(out, spec, K, "S", "flip1", 1024)
    for spec in (c222q, T222):
        for K in KS_ORTH:
            _emit(out, spec, K, "K", "flip1", 40)
    if tier == "thorough":
        for spec in (dict(T222, periodic=[2]), dict(T222, periodic=[0, 1])):
            for K in KS_ALL:
                _emit(out, spec, K, "S", "flip2", 1024)
            for K in KS_ORTH:
                _emit(out, spec, K, "K", "flip2", 64)
        c33 = {"kind": "C", "n": [3, 3]}
        t111 = lambda **kw: dict({"kind": "Tet", "n": [1, 1, 1]}, **kw)  # noqa: E731
        for K in KS_ALL:
            _emit(out, c33, K, "S", "all", 1024)
            for spec in (t111(), t111(pert=[[0, [1, -1, 1]]])):
                _emit(out, spec, K, "S", "all", 1024)
            for spec in ({"kind": "Tet", "n": [2, 1, 1]}, {"kind": "Tet", "n": [2, 1, 1], "pert": [[1, [1, 1, -1]]]},
                         {"kind": "C", "n": [2, 2, 2]}, {"kind": "C", "n": [2, 2, 2], "affine": "shear"},
                         {"kind": "C", "n": [2, 2, 2], "affine": "rotscale"}, T222):
                _emit(out, spec, K, "S", "flip2", 1024)
        for K in KS_ORTH:
            _emit(out, c33, K, "K", "all", 128)
            for spec in ({"kind": "C", "n": [2, 2, 2]}, T222):
                _emit(out, spec, K, "K", "flip2", 64)
    return out


def _perm(kl, g, spec=None):
    """(tensor object, constant matrix or None, max |K| entry)"""
    import porepy as pp

    dim, nc = g.dim, g.num_cells
    if spec is not None and spec.get("embed"):
        # embedded 2-d grid: 3x3 tensors in global coordinates
        if kl in ("hetdiag", "hetfull"):
            v = G.hetdiag_values(nc, 3)
            o = 0.5 * np.ones(nc) if kl == "hetfull" else np.zeros(nc)
            return pp.SecondOrderTensor(kxx=v[0], kyy=v[1], kzz=v[2], kxy=o, kxz=o, kyz=o), None, float(np.max(v))
        if kl == "Qhetdiag":
            # heterogeneous, diagonal in the plane coordinates: K_c = Q diag(v_c) Q^T
            Q = G.EMBED[spec["embed"]]
            v = G.hetdiag_values(nc, 3)
            Kc = np.einsum("ia,ac,ja->ijc", Q, v, Q)
            t = pp.SecondOrderTensor(kxx=Kc[0, 0], kyy=Kc[1, 1], kzz=Kc[2, 2], kxy=Kc[0, 1], kxz=Kc[0, 2], kyz=Kc[1, 2])
            return t, None, float(np.max(v))
        K = G.k_matrix_embedded(kl, spec)
        return G.tensor_from_matrix(K, nc), K, float(np.max(np.abs(K)))
    if kl == "hetdiag":
        return G.tensor_hetdiag(nc, dim), None, float(np.max(G.hetdiag_values(nc, dim)))
    if kl == "hetfull":
        v = G.hetdiag_values(nc, dim)
        o = 0.5 * np.ones(nc)
        if dim == 1:
            t = pp.SecondOrderTensor(kxx=v[0])
        elif dim == 2:
            t = pp.SecondOrderTensor(kxx=v[0], kyy=v[1], kxy=o)
        else:
            t = pp.SecondOrderTensor(kxx=v[0], kyy=v[1], kzz=v[2], kxy=o, kxz=o, kyz=o)
        return t, None, float(np.max(v))
    K = G.k_matrix(kl, dim)
    return G.tensor_from_matrix(K, nc), K, float(np.max(np.abs(K)))


def _structural(g, info, md, is_dir, scale_t, scale_flux):
    """Returns None or (what, detail)."""
    flux = md["flux"].tocsr()
    bflux = md["bound_flux"].tocsr()
    nf, nc = g.num_faces, g.num_cells
    if flux.shape != (nf, nc) or bflux.shape != (nf, nf):
        return "flux matrices have the wrong shape", {"flux": list(flux.shape), "bound_flux": list(bflux.shape)}
    div = g.cell_faces.T.tocsr()
    A = (div @ flux).toarray()
    asym = np.abs(A - A.T)
    if np.max(asym) > 1e-14 * max(scale_t, float(np.max(np.abs(A)))):
        i, j = np.unravel_index(int(np.argmax(asym)), asym.shape)
        return "div @ flux is not symmetric", {"cells": [int(i), int(j)], "a_ij": float(A[i, j]), "a_ji": float(A[j, i])}
    Fd = flux.toarray()
    cf = g.cell_faces.toarray()
    bset = np.zeros(nf, dtype=bool)
    bset[info["bfaces"]] = True
    pm = info.get("periodic_pairs")
    if pm is not None:
        for l, r in pm.T:  # noqa: E741
            cl, cr = int(np.nonzero(cf[l])[0][0]), int(np.nonzero(cf[r])[0][0])
            for f, own, oth in ((l, cl, cr), (r, cr, cl)):
                extra = np.setdiff1d(np.nonzero(Fd[f])[0], [cl, cr])
                if extra.size:
                    return "periodic face row touches a cell other than the two coupled cells", {"face": int(f), "cells": extra.tolist()}
                if Fd[f, own] == 0 or (cl != cr and Fd[f, own] != -Fd[f, oth]):
                    return "periodic face flux is not of the form t (p_own - p_other)", {
                        "face": int(f), "cells": [own, oth], "values": [float(Fd[f, own]), float(Fd[f, oth])]}
            dl = cf[l, cl] * Fd[l] + cf[r, cr] * Fd[r]
            if np.any(np.abs(dl) > 1e-14 * scale_t):
                return "flux over an identified periodic face pair is not single-valued (two transmissibilities)", {
                    "faces": [int(l), int(r)], "cells": [cl, cr], "row_left": Fd[l], "row_right": Fd[r]}
        bset[pm.ravel()] = True  # handled above
    for f in range(nf):
        nbr = np.nonzero(cf[f])[0]
        row = Fd[f]
        allowed = nbr
        if pm is not None and f in pm:
            continue
        others = np.setdiff1d(np.nonzero(row)[0], allowed)
        if others.size:
            return "flux row touches a cell that is not a neighbour of the face", {"face": f, "cells": others.tolist()}
        if not bset[f]:
            a, b = row[nbr[0]], row[nbr[1]]
            if a != -b or a == 0:
                return "interior face flux is not single-valued (row is not (t, -t))", {"face": f, "cells": nbr.tolist(), "values": [float(a), float(b)]}
    # constant pressure, matching Dirichlet data, zero Neumann flux
    bcv = np.zeros(nf)
    bcv[info["bfaces"][is_dir]] = 1.0
    q = flux @ np.ones(nc) + bflux @ bcv
    if not np.all(np.abs(q) <= scale_flux):
        f = int(np.argmax(np.abs(q)))
        return "constant pressure with matching Dirichlet data gives non-zero flux", {"face": f, "flux": float(q[f]), "tol": scale_flux}
    return None


def _korth(g, info, md, perm, Kc, bc, is_dir, tol_f, tol_p):
    nf, nc = g.num_faces, g.num_cells
    flux = md["flux"].tocsr()
    bflux = md["bound_flux"].tocsr()
    A = (g.cell_faces.T.tocsr() @ flux).toarray()
    d = np.diag(A)
    if not np.all(d > 0):
        c = int(np.argmin(d))
        return "non-positive diagonal on a K-orthogonal grid", {"cell": c, "value": float(d[c])}
    off = A - np.diag(d)
    if np.any(off > 0):
        i, j = np.unravel_index(int(np.argmax(off)), off.shape)
        return "positive off-diagonal entry on a K-orthogonal grid", {"cells": [int(i), int(j)], "value": float(off[i, j])}
    try:
        mm, _ = F.discretize_flow("mpfa", g, perm, bc, None, "python")
    except Exception as e:  # MPFA is the reference here, not the subject: harness error
        raise RuntimeError(f"reference Mpfa.discretize raised: {e!r}")
    for key in ("flux", "bound_flux"):
        dlt = np.abs((md[key] - mm[key]).toarray())
        if not np.all(dlt <= tol_f):
            i, j = np.unravel_index(int(np.argmax(dlt)), dlt.shape)
            return f"TPFA {key} differs from MPFA on a K-orthogonal grid", {
                "row_face": int(i), "col": int(j), "tpfa": float(md[key].toarray()[i, j]), "mpfa": float(mm[key].toarray()[i, j]), "tol": tol_f}
    if Kc is not None:
        bf = info["bfaces"]
        per_axes = set()
        if info.get("periodic_pairs") is not None:
            for l, r in info["periodic_pairs"].T:  # noqa: E741
                per_axes.add(int(np.argmax(np.abs(g.face_centers[:, r] - g.face_centers[:, l]))))
        for name, p0, grad in G.basis_fields(3 if info.get("plane_normal") is not None else g.dim):
            if any(grad[a] != 0 for a in per_axes):
                continue  # not a periodic field
            pc, pf, bcv, q = F.linear_data(g, info, Kc, is_dir, p0, grad)
            fl = flux @ pc + bflux @ bcv
            err = np.abs(fl - q)
            if not np.all(err <= tol_f):
                f = int(np.argmax(err))
                return "TPFA flux of a linear field is not exact on a K-orthogonal grid", {
                    "field": name, "face": f, "expected": float(q[f]), "observed": float(fl[f]), "tol": tol_f}
            pb = md["bound_pressure_cell"] @ pc + md["bound_pressure_face"] @ bcv
            errp = np.abs(pb[bf] - pf[bf])
            if not np.all(errp <= tol_p):
                j = int(np.argmax(errp))
                return "TPFA boundary pressure of a linear field is not exact on a K-orthogonal grid", {
                    "field": name, "face": int(bf[j]), "face_is_dirichlet": bool(is_dir[j]),
                    "expected": float(pf[bf[j]]), "observed": float(pb[bf[j]]), "tol": tol_p}
    return None


def run_case(case) -> Outcome:
    out = Outcome()
    spec, kl, part = case["grid"], case["K"], case["part"]
    g, info = G.build_grid(spec)
    dim = g.dim
    nb = len(info["bfaces"])
    assert nb == G.num_boundary_faces(spec), (nb, spec)
    assert g.num_cells >= 2
    perm, Kc, kmax = _perm(kl, g, spec)
    if case["aset"] == "all":
        masks = G.all_assignments(nb)
    else:
        masks = G.flip_assignments(info["side"], dim, pairs=(case["aset"] == "flip2"))
    i, nch = case["chunk"]
    masks = masks[i::nch]
    nmax, hmin, xmax = F.geom_scales(g)
    scale_t = kmax * nmax / hmin
    tol_f = TOL * kmax * nmax * (1.0 + xmax / hmin)
    tol_p = 1e-10 * (1.0 + xmax)
    gname = G.grid_name(spec)
    plain = spec["kind"] == "C" and not spec.get("pert") and spec.get("affine", "id") == "id" and not spec.get("periodic")
    gcls = f"{dim}d-{spec['kind']}" + ("~" if spec.get("pert") else "") + ("@" if spec.get("affine", "id") != "id" else "")
    gcls += ("^emb" if spec.get("embed") else "") + ("/per" if spec.get("periodic") else "") + ("*" if spec.get("scale", 1.0) != 1.0 else "")
    bf = info["bfaces"]
    for m in masks:
        is_dir = G.mask_to_dir(m, nb)
        nd = int(is_dir.sum())
        bccls = "noBnd" if nb == 0 else ("allDir" if nd == nb else ("allNeu" if nd == 0 else "mixed"))
        key = (gname, kl, part, m) if ((0 < nd < nb or spec.get("periodic")) and not (plain and kl == "I")) else None
        try:
            bc = G.make_bc(g, bf, is_dir)
            dg0 = G.digest(g, perm, bc)
            md, data = F.discretize_flow("tpfa", g, perm, bc)
            dg1 = G.digest(g, perm, bc)
        except Exception as e:
            out.violate("Tpfa.discretize raised on a valid input", error=repr(e), grid=gname, K=kl, dirichlet_mask=m)
            out.ev("exception")
            continue
        bad = None
        if dg0 != dg1:
            bad = ("Tpfa.discretize modified its arguments (grid / tensor / boundary condition)", {})
        elif m % 4 == 0:
            first = G.dense_copy(md)
            try:
                second = G.dense_copy(F.rediscretize("tpfa", g, data))
                for k in first:
                    if k not in second or not np.array_equal(first[k], second[k]):
                        bad = ("second Tpfa.discretize on the same data dictionary gives different matrices", {"matrix": k})
                        break
                if bad is None and G.digest(g, perm, bc) != dg0:
                    bad = ("second Tpfa.discretize modified its arguments", {})
            except Exception as e:
                bad = ("second Tpfa.discretize on the same data dictionary raised", {"error": repr(e)})
        if bad is not None:
            pass
        elif part == "S":
            bad = _structural(g, info, md, is_dir, scale_t, tol_f)
        else:
            bad = _korth(g, info, md, perm, Kc, bc, is_dir, tol_f, tol_p)
        if bad is not None:
            out.violate(bad[0], grid=gname, grid_spec=spec, K_letter=kl, dirichlet_mask=m,
                        dirichlet_faces=bf[is_dir], neumann_faces=bf[~is_dir], **bad[1])
            out.ev("VIOLATION", key)
        else:
            out.ev(f"{part}/{gcls}/{'het' if Kc is None else ('diag' if kl in ('I', 'diag', 'Qdiag') else 'full')}/{bccls}", key)
        if not out.samples and key is not None:
            out.samples.append({"grid": gname, "K": kl, "part": part, "dirichlet_faces": bf[is_dir].tolist(),
                                "neumann_faces": bf[~is_dir].tolist()})
    return out


def known_finding(case, viol):
    return None
