"""C32 — coordinate maps and tangential-normal bases are orthonormal.

Engine E. For every direction of the alphabet (all non-zero integer vectors of
{-2..2}^3 and the nearly axis-parallel vectors with one component eps in {1e-3, 1e-6})
the real ``project_plane_matrix``, ``project_line_matrix``, ``rotation_matrix``,
``compute_normal``, ``compute_tangent``, ``normal_matrix``/``tangent_matrix``,
``map_grid`` and ``TangentialNormalProjection`` are run on every planar/linear lattice
point cloud, reference vector, angle and grid of the alphabet, and the defining
identities are checked (orthogonality, determinant, image of the normal, preserved
distances and inner products, normal orthogonal to all point differences).
"""

from __future__ import annotations

import itertools
import math

import numpy as np

from mc.core import Outcome

PROPERTY = "C32"
LEVEL = "exploration"
RULE = (
    "one case per direction n (124 integer directions of {-2..2}^3 plus 48 nearly axis-parallel "
    "ones) and per task family: 'maps' = every (cloud shape, offset, point order, reference, "
    "normal given/computed) for plane/line matrices, every angle for rotation_matrix, every "
    "embedded 1-d/2-d grid for map_grid; 'tnp3' = TangentialNormalProjection on (n, m) for every "
    "second direction m; 'tnp2' = the same in 2-d. Non-trivial = direction not parallel to a "
    "coordinate axis; distinct by (family, direction, sub-input)."
)
ASSUMPTIONS = [
    "orthogonality / determinant / distance identities to 1e-12 (measured round-off floor 1.3e-15)",
    "image of the normal/tangent to 1e-9 (floor 6e-14 for directions >= 1e-3 rad away from the "
    "reference); for directions within 1e-4 rad of +-reference the arccos in project_*_matrix is "
    "ill-conditioned (measured 7e-11 at 1e-6 rad), the image test is skipped there (class "
    "'skipped:map-near-reference') while orthogonality and determinant are still demanded",
    "a normal exactly anti-parallel to the reference is mapped by the identity (documented "
    "zero-axis fallback of rotation_matrix), i.e. onto minus the last axis: accepted, class "
    "'antiparallel'; computed normals/tangents have arbitrary sign, so +- is accepted there",
    "TangentialNormalProjection in 2-d chooses the tangent with non-negative x-component by "
    "design, so det = -1 occurs; |det| = 1 is demanded in 2-d and det = +1 in 3-d",
    "directions closer than 1e-8 to a coordinate axis but not on it are outside the alphabet "
    "(TangentialNormalProjection switches to an axis-aligned tangent there, off by the same amount)",
]
BOUNDS = {
    "quick": "172 directions; supplied normals / tangents in 8 lengths 1e-12 .. 1e9; clouds {triangle, quad, L, collinear-triple} x 2 offsets x 3 orders; references {default, e_x, e_y}; "
             "6 angles; 2-d grids {Cartesian 2x2, triangles 2x2}, 1-d grid 3 cells; tnp3: all ordered pairs (n, m) with m in the 124 integer directions; "
             "tnp2: all ordered pairs of the 24 integer + 16 near-axis 2-d directions",
    "thorough": "same as quick plus tnp3 second direction over all 172 directions and num in {None,1,3}",
}
MIN_CLASSES = 6
CHUNK = 4

ORTH_TOL = 1e-12
MAP_TOL = 1e-9
EPS = [1e-3, 1e-6]
# length axis for caller-supplied normals / tangents ("any nonzero normal or tangent vector")
LENGTHS = [1e-12, 1e-9, 1e-6, 1e-3, 1.0, 3.0, 1e3, 1e9]
ANGLES = [0.0, math.pi / 6, math.pi / 2, math.pi, 2 * math.pi / 3, -math.pi / 3]


def _dirs3():
    lat = [list(map(float, v)) for v in itertools.product(range(-2, 3), repeat=3) if any(v)]
    near = []
    for k in range(3):
        for s in (1.0, -1.0):
            for j in range(3):
                if j == k:
                    continue
                for e in EPS:
                    for se in (1.0, -1.0):
                        v = [0.0, 0.0, 0.0]
                        v[k] = s
                        v[j] = se * e
                        near.append(v)
    return lat, near


def _dirs2():
    lat = [list(map(float, v)) for v in itertools.product(range(-2, 3), repeat=2) if any(v)]
    near = []
    for k in range(2):
        for s in (1.0, -1.0):
            for e in EPS:
                for se in (1.0, -1.0):
                    v = [0.0, 0.0]
                    v[k] = s
                    v[1 - k] = se * e
                    near.append(v)
    return lat, near


def cases(tier):
    lat, near = _dirs3()
    out = []
    for v in lat + near:
        out.append({"family": "maps", "n": v})
    for v in lat + near:
        out.append({"family": "tnp3", "n": v, "second": "all" if tier == "thorough" else "lattice"})
    l2, n2 = _dirs2()
    for v in l2 + n2:
        out.append({"family": "tnp2", "n": v})
    return out


# ------------------------------------------------------------------ helpers


def _unit(v):
    v = np.asarray(v, dtype=float)
    return v / math.sqrt(float(np.dot(v, v)))


def _in_plane(n):
    """Two independent vectors orthogonal to n. For integer n they are integer and exactly
    orthogonal; for the near-axis directions they are orthogonal to rounding."""
    n = np.asarray(n, dtype=float)
    cands = [np.array([n[1], -n[0], 0.0]), np.array([0.0, n[2], -n[1]]), np.array([n[2], 0.0, -n[0]])]
    # the longest candidate (ties: first) keeps the construction well conditioned
    u = max(cands, key=lambda c: (float(np.dot(c, c)), 0))
    for c in cands:
        if float(np.dot(c, c)) == float(np.dot(u, u)):
            u = c
            break
    v = np.cross(n, u)
    return u, v


CLOUDS = {
    "tri": [(0, 0), (1, 0), (0, 1)],
    "quad": [(0, 0), (2, 0), (2, 1), (0, 1)],
    "L": [(0, 0), (2, 0), (2, 1), (1, 1), (1, 2), (0, 2)],
    "col3": [(0, 0), (1, 0), (2, 0), (0, 1)],
}
OFFSETS = [(0.0, 0.0, 0.0), (1.0, -2.0, 3.0)]
# scale / translation axis for the point clouds (tolerances are relative to the cloud extent; a far
# offset is only combined with unit scale so that coordinate rounding stays below the tolerances)
CLOUD_FRAMES = [(1.0, o) for o in OFFSETS] + [(1.0, (1000.0, -2000.0, 3000.0)), (2.0**-10, (0.0, 0.0, 0.0)), (1024.0, (0.0, 0.0, 0.0))]


def _orders(k):
    ident = list(range(k))
    return [ident, ident[::-1], ident[1:] + ident[:1]]


def _angle_to(nh, r):
    c = float(np.dot(nh, r))
    s = float(np.linalg.norm(np.cross(nh, r)))
    return math.atan2(s, c)


def _check_rotation(R, out, what, **detail):
    """Orthogonal with determinant +1."""
    R = np.asarray(R)
    if R.shape != (3, 3) or not np.all(np.isfinite(R)):
        out.violate(what + ": matrix has wrong shape or non-finite entries", R=R, **detail)
        return False
    e1 = float(np.abs(R.T @ R - np.eye(3)).max())
    e2 = abs(float(np.linalg.det(R)) - 1.0)
    if e1 > ORTH_TOL or e2 > ORTH_TOL:
        out.violate(what + ": matrix is not a rotation (R^T R = I, det = +1)", R=R, orth_err=e1, det_err=e2, **detail)
        return False
    return True


def _check_image(R, vh, r, signed, out, what, **detail):
    """R vh = r (or -r if allowed). Returns the observation class suffix."""
    ang = _angle_to(vh, r)
    img = R @ vh
    if min(ang, math.pi - ang) < 1e-4 and not (ang == 0.0 or np.array_equal(vh, -r)):
        return "skipped:map-near-reference"
    ep = float(np.abs(img - r).max())
    em = float(np.abs(img + r).max())
    if ep <= MAP_TOL:
        return "img+"
    if em <= MAP_TOL and (not signed or np.array_equal(np.cross(vh, r), np.zeros(3))):
        return "antiparallel" if signed else "img-"
    detail = {("reference_argument" if k == "reference" else k): v for k, v in detail.items()}
    out.violate(what + ": normal/tangent is not mapped onto the reference axis", R=R, unit_vector=vh, reference_axis=r,
                image=img, err_plus=ep, err_minus=em, **detail)
    return "VIOLATION"


# ------------------------------------------------------------------ family: maps


def _maps(case, out: Outcome):
    from porepy.geometry import map_geometry as mg

    n = np.array(case["n"], dtype=float)
    nh = _unit(n)
    axis_par = int(np.count_nonzero(n)) == 1
    nkey = tuple(case["n"])

    def key(*a):
        return None if axis_par else ("maps", nkey) + a

    ez = np.array([0.0, 0.0, 1.0])
    refs = [(None, ez), ([1.0, 0.0, 0.0], np.array([1.0, 0.0, 0.0])), ([0.0, 1.0, 0.0], np.array([0.0, 1.0, 0.0]))]
    u, v = _in_plane(n)
    scale_n = 1.0

    # ---- plane matrix with the normal given (scaled normals: length must not matter)
    for ref_arg, r in refs:
        for sc in LENGTHS:
            try:
                R = mg.project_plane_matrix(None, normal=sc * n, reference=None if ref_arg is None else np.array(ref_arg),
                                            check_planar=False)
            except Exception as e:
                out.violate("project_plane_matrix raised", error=repr(e), normal=sc * n, reference=ref_arg)
                out.ev("plane/exception", key("plane", str(ref_arg), sc))
                continue
            cls = "rot-bad"
            if _check_rotation(R, out, "project_plane_matrix", normal=sc * n, reference=ref_arg):
                cls = _check_image(R, nh, r, True, out, "project_plane_matrix", normal=sc * n, reference=ref_arg)
            out.ev("plane/given/" + cls, key("plane", str(ref_arg), sc))

    # ---- clouds: compute_normal, plane matrix from points, planarity check on
    for cname, coef in CLOUDS.items():
        for csc, off in CLOUD_FRAMES:
            if csc != 1.0 and cname not in ("quad", "col3"):
                continue
            base = np.array(off)[:, None] + csc * np.array([[a * u[i] + b * v[i] for (a, b) in coef] for i in range(3)])
            for oi, order in enumerate(_orders(len(coef))):
                pts = np.ascontiguousarray(base[:, order])
                k = key("cloud", cname, off, csc, oi)
                pts0 = pts.copy()
                diffs = pts[:, :, None] - pts[:, None, :]
                scale = float(np.abs(diffs).max())
                # compute_normal
                try:
                    cn = mg.compute_normal(pts)
                    bad = None
                    if cn.shape != (3,) or not np.all(np.isfinite(cn)):
                        bad = "wrong shape / non-finite"
                    elif abs(float(np.linalg.norm(cn)) - 1.0) > ORTH_TOL:
                        bad = "not a unit vector"
                    else:
                        dev = float(np.abs(np.einsum("i,ijk->jk", cn, diffs)).max())
                        if dev > ORTH_TOL * scale * 10 + 1e-13 * float(np.abs(pts).max()):
                            bad = f"not orthogonal to the point differences (max |n.(pi-pj)| = {dev:.3e})"
                    if bad:
                        out.violate("compute_normal: " + bad, points=pts, got=cn, true_normal_direction=n)
                        out.ev("normal/VIOLATION", k)
                    else:
                        out.ev("normal/" + ("same-sign" if float(np.dot(cn, nh)) > 0 else "flipped"), k)
                except Exception as e:
                    out.violate("compute_normal raised on a non-collinear planar cloud", error=repr(e), points=pts)
                    out.ev("normal/exception", k)
                # project_plane_matrix from the points (normal computed inside, planarity asserted)
                first_cloud = cname == "tri" and csc == 1.0 and off == OFFSETS[0] and oi == 0
                for given, ln in [(False, 1.0)] + [(True, L) for L in (LENGTHS if first_cloud else [1.0])]:
                    try:
                        R = mg.project_plane_matrix(pts, normal=(ln * n if given else None))
                    except Exception as e:
                        out.violate("project_plane_matrix raised on a planar cloud", error=repr(e), points=pts,
                                    normal=(ln * n if given else None))
                        out.ev("plane/cloud/exception", k)
                        continue
                    cls = "rot-bad"
                    if _check_rotation(R, out, "project_plane_matrix(points)", points=pts):
                        cls = _check_image(R, nh, ez, given, out, "project_plane_matrix(points)", points=pts, normal_given=given,
                                           normal_length_factor=ln)
                        if cls != "VIOLATION":
                            loc = R @ pts
                            zdev = float(np.abs(loc[2] - loc[2, 0]).max())
                            d_loc = np.sqrt(((loc[:2, :, None] - loc[:2, None, :]) ** 2).sum(axis=0))
                            d_org = np.sqrt((diffs**2).sum(axis=0))
                            ddev = float(np.abs(d_loc - d_org).max())
                            # in the near-reference band the rotation angle (not the rotation) is
                            # inexact: the plane is tilted by the measured arccos error
                            ztol = (MAP_TOL * scale if not cls.startswith("skipped") else 1e-6 * scale) + 1e-12 * float(np.abs(pts).max())
                            if zdev > ztol:
                                out.violate("project_plane_matrix(points): mapped cloud is not in a plane of constant last coordinate",
                                            points=pts, R=R, deviation=zdev)
                                cls = "VIOLATION"
                            elif ddev > (ORTH_TOL if not cls.startswith("skipped") else 1e-9) * scale * 10 + 1e-13 * float(np.abs(pts).max()):
                                out.violate("project_plane_matrix(points): in-plane distances not preserved", points=pts, R=R, deviation=ddev)
                                cls = "VIOLATION"
                    out.ev("plane/cloud/" + ("given/" if given else "computed/") + cls, k)
                if not np.array_equal(pts, pts0):
                    out.violate("compute_normal / project_plane_matrix modified the point array", points=pts0, after=pts)
                    out.ev("purity/VIOLATION", k)

    # ---- normal / tangent projection matrices
    try:
        err = 0.0
        for ln in LENGTHS:
            N = mg.normal_matrix(normal=ln * n)
            T = mg.tangent_matrix(normal=ln * n)
            err = max(
                err,
                float(np.abs(N @ N - N).max()), float(np.abs(T @ T - T).max()), float(np.abs(N + T - np.eye(3)).max()),
                float(np.abs(N @ nh - nh).max()), float(np.abs(T @ nh).max()), float(np.abs(N - N.T).max()),
                float(np.abs(T @ _unit(u) - _unit(u)).max()),
            )
        if not err <= ORTH_TOL:
            out.violate("normal_matrix/tangent_matrix are not complementary orthogonal projectors", normal=n, N=N, T=T, err=err)
            out.ev("projector/VIOLATION", key("projector"))
        else:
            out.ev("projector/ok", key("projector"))
    except Exception as e:
        out.violate("normal_matrix/tangent_matrix raised", error=repr(e), normal=n)
        out.ev("projector/exception", key("projector"))

    # ---- rotation_matrix about n
    w = _unit(u)
    for a in ANGLES:
        for sc in (1.0, 3.0):
            k = key("rot", round(a, 6), sc)
            try:
                R = mg.rotation_matrix(a, sc * n)
            except Exception as e:
                out.violate("rotation_matrix raised", error=repr(e), angle=a, vect=sc * n)
                out.ev("rot/exception", k)
                continue
            if not _check_rotation(R, out, "rotation_matrix", angle=a, vect=sc * n):
                out.ev("rot/rot-bad", k)
                continue
            e_axis = float(np.abs(R @ nh - nh).max())
            e_tr = abs(float(np.trace(R)) - 1.0 - 2.0 * math.cos(a))
            rw = R @ w
            e_cos = abs(float(np.dot(w, rw)) - math.cos(a))
            e_sin = abs(float(np.dot(np.cross(w, rw), nh)) - math.sin(a))
            if max(e_axis, e_tr, e_cos, e_sin) > ORTH_TOL:
                out.violate("rotation_matrix: not the right-handed rotation by the angle about the axis", angle=a, vect=sc * n, R=R,
                            axis_err=e_axis, trace_err=e_tr, cos_err=e_cos, sin_err=e_sin)
                out.ev("rot/VIOLATION", k)
            else:
                out.ev("rot/" + ("identity" if a == 0.0 else "half-turn" if a == math.pi else "generic"), k)

    # ---- lines: compute_tangent, project_line_matrix
    t = n
    th = nh
    params = [[0.0, 1.0, 3.0], [2.0, -1.0, 0.5], [0.0, 1.0], [1.0, 0.0, 4.0, 2.0]]
    for pi_, par in enumerate(params):
        for off in OFFSETS:
            pts = np.array(off)[:, None] + np.outer(t, np.array(par))
            k = key("line", pi_, off)
            scale = float(np.abs(pts[:, :, None] - pts[:, None, :]).max())
            try:
                ct = mg.compute_tangent(pts)
                if ct.shape != (3,) or abs(float(np.linalg.norm(ct)) - 1.0) > ORTH_TOL or float(np.linalg.norm(np.cross(ct, th))) > ORTH_TOL * 10:
                    out.violate("compute_tangent: not a unit vector along the line", points=pts, got=ct, direction=t)
                    out.ev("tangent/VIOLATION", k)
                else:
                    out.ev("tangent/" + ("same-sign" if float(np.dot(ct, th)) > 0 else "flipped"), k)
            except Exception as e:
                out.violate("compute_tangent raised", error=repr(e), points=pts)
                out.ev("tangent/exception", k)
            first_line = pi_ == 0 and off == OFFSETS[0]
            for given, ln in [(False, 1.0)] + [(True, L) for L in (LENGTHS if first_line else [2.0])]:
                for ref_arg, r in (refs if given else refs[:1]):
                    try:
                        R = mg.project_line_matrix(pts, tangent=(ln * t if given else None),
                                                   reference=None if ref_arg is None else np.array(ref_arg))
                    except Exception as e:
                        out.violate("project_line_matrix raised", error=repr(e), points=pts, tangent_given=given, reference=ref_arg)
                        out.ev("line/exception", k)
                        continue
                    cls = "rot-bad"
                    if _check_rotation(R, out, "project_line_matrix", points=pts, tangent_given=given, reference=ref_arg):
                        cls = _check_image(R, th, r, given, out, "project_line_matrix", points=pts, tangent_given=given, reference=ref_arg,
                                           tangent_length_factor=ln)
                        if cls != "VIOLATION":
                            loc = R @ pts
                            other = [i for i in range(3) if r[i] == 0.0]
                            dev = float(np.abs(loc[other] - loc[other][:, :1]).max())
                            act = [i for i in range(3) if r[i] != 0.0][0]
                            d_loc = np.abs(loc[act][:, None] - loc[act][None, :])
                            d_org = np.sqrt(((pts[:, :, None] - pts[:, None, :]) ** 2).sum(axis=0))
                            ddev = float(np.abs(d_loc - d_org).max())
                            near = cls.startswith("skipped")
                            if dev > (1e-6 if near else MAP_TOL) * scale:
                                out.violate("project_line_matrix: mapped points are not on a line parallel to the reference axis",
                                            points=pts, R=R, deviation=dev)
                                cls = "VIOLATION"
                            elif ddev > (1e-9 if near else ORTH_TOL * 10) * scale:
                                out.violate("project_line_matrix: distances along the line not preserved", points=pts, R=R, deviation=ddev)
                                cls = "VIOLATION"
                    out.ev("line/" + ("given/" if given else "computed/") + cls, k)

    # ---- map_grid on embedded grids
    _map_grids(n, u, v, out, key)


def _map_grids(n, u, v, out: Outcome, key):
    import porepy as pp
    from porepy.geometry import map_geometry as mg

    def emb2(g, off):
        x, y = g.nodes[0].copy(), g.nodes[1].copy()
        g.nodes = np.array(off)[:, None] + np.outer(u, x) + np.outer(v, y)
        g.compute_geometry()
        return g

    def emb1(g, off):
        x = np.array([0.0, 1.0, 3.0, 4.0])
        g.nodes = np.array(off)[:, None] + np.outer(n, x)
        g.compute_geometry()
        return g

    builders = [
        ("cart2", lambda off: emb2(pp.CartGrid(np.array([2, 2])), off)),
        ("tri2", lambda off: emb2(pp.StructuredTriangleGrid(np.array([2, 2])), off)),
        ("line1", lambda off: emb1(pp.CartGrid(np.array([3])), off)),
    ]
    for gname, build in builders:
        for off in OFFSETS:
            k = key("grid", gname, off)
            try:
                g = build(off)
            except Exception as e:
                # compute_geometry of an embedded 1-d/2-d grid itself goes through
                # project_plane_matrix / project_line_matrix / map_grid; it never fails for
                # these valid planar grids unless those maps are wrong
                out.violate("compute_geometry of a planar/linear embedded grid raised (it uses the coordinate maps)", error=repr(e),
                            grid=gname, direction=n, offset=off)
                out.ev("grid/build-exception", k)
                continue
            try:
                cc, fn, fc, R, dim, nodes = mg.map_grid(g)
            except Exception as e:
                out.violate("map_grid raised on a planar/linear embedded grid", error=repr(e), grid=gname, nodes=g.nodes)
                out.ev("grid/exception", k)
                continue
            cls = "ok"
            if not _check_rotation(R, out, "map_grid", grid=gname, nodes=g.nodes):
                cls = "rot-bad"
            elif int(np.sum(dim)) != g.dim or cc.shape != (g.dim, g.num_cells) or fn.shape != (g.dim, g.num_faces) \
                    or fc.shape != (g.dim, g.num_faces) or nodes.shape != (g.dim, g.num_nodes):
                out.violate("map_grid: wrong shapes / active dimensions", grid=gname, dim=dim, shapes=[cc.shape, fn.shape, fc.shape, nodes.shape])
                cls = "VIOLATION"
            else:
                def pd(a, b):
                    return np.sqrt(((a[:, :, None] - b[:, None, :]) ** 2).sum(axis=0))

                scale = float(np.abs(g.nodes - g.nodes[:, :1]).max())
                near = min(_angle_to(_unit(n), np.array([0.0, 0.0, 1.0])), math.pi - _angle_to(_unit(n), np.array([0.0, 0.0, 1.0]))) < 1e-4
                tol = 1e-9 if near else ORTH_TOL * 10  # relative to the grid extent
                errs = {
                    "node distances": float(np.abs(pd(nodes, nodes) - pd(g.nodes, g.nodes)).max()) / scale,
                    "cell-centre/face-centre distances": float(np.abs(pd(cc, fc) - pd(g.cell_centers, g.face_centers)).max()) / scale,
                    "cell-centre/node distances": float(np.abs(pd(cc, nodes) - pd(g.cell_centers, g.nodes)).max()) / scale,
                    "face normal lengths": float(np.abs(np.linalg.norm(fn, axis=0) - np.linalg.norm(g.face_normals, axis=0)).max())
                    / float(np.linalg.norm(g.face_normals, axis=0).max()),
                    "normal . (face centre - cell centre)": float(np.abs(
                        np.einsum("if,ifc->fc", fn, fc[:, :, None] - cc[:, None, :])
                        - np.einsum("if,ifc->fc", g.face_normals, g.face_centers[:, :, None] - g.cell_centers[:, None, :])).max())
                    / (scale * float(np.linalg.norm(g.face_normals, axis=0).max())),
                }
                worst = max(errs, key=lambda s: errs[s])
                if not errs[worst] <= tol:
                    out.violate("map_grid: local coordinates do not preserve " + worst, grid=gname, nodes=g.nodes, R=R, errors=errs)
                    cls = "VIOLATION"
                else:
                    # supplying the same R must reproduce the result
                    cc2, fn2, fc2, R2, dim2, nodes2 = mg.map_grid(g, R=R)
                    if not (np.array_equal(cc, cc2) and np.array_equal(fn, fn2) and np.array_equal(nodes, nodes2) and np.array_equal(dim, dim2)):
                        out.violate("map_grid: result with R supplied differs from result with R computed", grid=gname, nodes=g.nodes, R=R)
                        cls = "VIOLATION"
            out.ev(f"grid/{gname}/" + cls + "/active" + "".join(str(int(b)) for b in np.asarray(dim).ravel()), k)


# ------------------------------------------------------------------ family: tnp


def _blocks(M, dim, num):
    M = np.asarray(M.todense()) if hasattr(M, "todense") else np.asarray(M)
    return M, [M[i * dim:(i + 1) * dim, i * dim:(i + 1) * dim] for i in range(num)]


def _check_tnp(normals, out: Outcome, key, nums):
    """normals: (dim, k) array of non-zero vectors."""
    from porepy.utils.tangential_normal_projection import TangentialNormalProjection as TNP

    dim, nv = normals.shape
    try:
        arg = normals.copy()
        tnp = TNP(arg)
        if not np.array_equal(arg, normals):
            out.violate("TangentialNormalProjection modified the array of normals", normals=normals, after=arg)
        unit = normals / np.linalg.norm(normals, axis=0)
        bad = None
        if tnp.num_vecs != nv or tnp.dim != dim:
            bad = "num_vecs/dim wrong"
        elif np.abs(np.asarray(tnp.normals) - unit).max() > ORTH_TOL:
            bad = "stored normals are not the normalised input"
        dets = []
        for num in nums:
            nb = nv if num is None else num
            full, blocks = _blocks(tnp.project_tangential_normal(num), dim, nb)
            if full.shape != (dim * nb, dim * nb):
                bad = bad or f"project_tangential_normal({num}) has wrong shape"
                break
            off = full.copy()
            for i in range(nb):
                off[i * dim:(i + 1) * dim, i * dim:(i + 1) * dim] = 0
            if np.abs(off).max() != 0:
                bad = bad or "projection is not block diagonal"
            for i, P in enumerate(blocks):
                nh = unit[:, i if num is None else 0]
                e_orth = float(np.abs(P @ P.T - np.eye(dim)).max())
                det = float(np.linalg.det(P))
                e_last = np.zeros(dim)
                e_last[-1] = 1.0
                e_img = float(np.abs(P @ nh - e_last).max())
                e_tan = float(np.abs(P[:-1] @ nh).max())
                e_nrow = float(np.abs(P[-1] - nh).max())
                dets.append(det)
                if e_orth > ORTH_TOL:
                    bad = bad or f"block {i} rows are not orthonormal (err {e_orth:.3e})"
                elif abs(abs(det) - 1.0) > ORTH_TOL or (dim == 3 and abs(det - 1.0) > ORTH_TOL):
                    bad = bad or f"block {i} determinant {det}"
                elif max(e_img, e_tan, e_nrow) > ORTH_TOL:
                    bad = bad or f"block {i} does not map the normal to the last local axis (err {max(e_img, e_tan, e_nrow):.3e})"
            # restrictions to tangential / normal parts are the corresponding rows
            Tm = np.asarray(tnp.project_tangential(num).todense())
            Nm = np.asarray(tnp.project_normal(num).todense())
            rows_t = [r for r in range(dim * nb) if r % dim != dim - 1]
            rows_n = [r for r in range(dim * nb) if r % dim == dim - 1]
            if Tm.shape != (len(rows_t), dim * nb) or Nm.shape != (len(rows_n), dim * nb):
                bad = bad or "project_tangential / project_normal have wrong shape"
            elif not (np.array_equal(Tm, full[rows_t]) and np.array_equal(Nm, full[rows_n])):
                bad = bad or "project_tangential / project_normal are not the tangential / normal rows of the full projection"
            else:
                # decomposition preserves lengths: |T x|^2 + |N x|^2 = |x|^2 on lattice vectors
                xs = np.array(list(itertools.product((-1.0, 0.0, 2.0), repeat=dim))).T
                X = np.tile(xs, (nb, 1))
                lhs = (np.add.reduceat((Tm @ X) ** 2, np.arange(0, len(rows_t), dim - 1), axis=0)
                       + (Nm @ X) ** 2)
                rhs = np.tile((xs**2).sum(axis=0), (nb, 1))
                if np.abs(lhs - rhs).max() > ORTH_TOL * 100:
                    bad = bad or "tangential/normal decomposition does not preserve lengths"
        if bad:
            out.violate("TangentialNormalProjection: " + bad, normals=normals, nums=[n for n in nums])
            out.ev(f"tnp{dim}/VIOLATION", key)
        else:
            sg = "det+" if all(d > 0 for d in dets) else "det-" if all(d < 0 for d in dets) else "det+-"
            ax = "axis" if int(np.count_nonzero(normals[:, 0])) == 1 else "generic"
            out.ev(f"tnp{dim}/{ax}/{sg}", key)
    except Exception as e:
        out.violate("TangentialNormalProjection raised", error=repr(e), normals=normals)
        out.ev(f"tnp{dim}/exception", key)


def _tnp3(case, out: Outcome):
    n = np.array(case["n"], dtype=float)
    lat, near = _dirs3()
    seconds = lat + (near if case["second"] == "all" else [])
    nums = [None, 1, 3] if case["second"] == "all" else [None, 2]
    axis_par = int(np.count_nonzero(n)) == 1
    for ln in LENGTHS:
        _check_tnp((ln * n).reshape(3, 1), out, None if axis_par else ("tnp3", tuple(case["n"]), ln), [None, 1, 2])
    for m in seconds:
        k = None if axis_par else ("tnp3", tuple(case["n"]), tuple(m))
        _check_tnp(np.array([n, np.array(m)]).T.copy(), out, k, nums)
    # one batch with every direction, n first
    allv = np.array([case["n"]] + lat).T.copy()
    _check_tnp(allv, out, None if axis_par else ("tnp3all", tuple(case["n"])), [None])


def _tnp2(case, out: Outcome):
    n = np.array(case["n"], dtype=float)
    lat, near = _dirs2()
    axis_par = int(np.count_nonzero(n)) == 1
    for ln in LENGTHS:
        _check_tnp((ln * n).reshape(2, 1), out, None if axis_par else ("tnp2", tuple(case["n"]), ln), [None, 1, 3])
    for m in lat + near:
        k = None if axis_par else ("tnp2", tuple(case["n"]), tuple(m))
        _check_tnp(np.array([n, np.array(m)]).T.copy(), out, k, [None, 2])
    allv = np.array([case["n"]] + lat + near).T.copy()
    _check_tnp(allv, out, None if axis_par else ("tnp2all", tuple(case["n"])), [None])


def run_case(case) -> Outcome:
    out = Outcome()
    fam = case["family"]
    if fam == "maps":
        _maps(case, out)
        if not out.samples:
            out.samples.append({"family": "maps", "direction": case["n"], "clouds": list(CLOUDS), "angles": ANGLES})
    elif fam == "tnp3":
        _tnp3(case, out)
    elif fam == "tnp2":
        _tnp2(case, out)
    else:
        raise ValueError(fam)
    return out


def known_finding(case, viol):
    return None
