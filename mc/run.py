"""CLI: python -m mc.run <ID> [--tier quick|thorough] [--replay path] [--jobs N]"""
import argparse
import os
import sys

from mc.core import run_check


def main(argv=None):
    ap = argparse.ArgumentParser()
    ap.add_argument("prop")
    ap.add_argument("--tier", default=os.environ.get("VERIF_TIER", "quick"), choices=["quick", "thorough"])
    ap.add_argument("--replay", default=None)
    ap.add_argument("--jobs", type=int, default=None)
    a = ap.parse_args(argv)
    seed = int(os.environ.get("VERIF_SEED", "0") or 0)
    modname = "mc.checks." + a.prop.lower()
    rc = run_check(modname, a.tier, seed, replay=a.replay, jobs=a.jobs)
    sys.exit(rc)


if __name__ == "__main__":
    main()
