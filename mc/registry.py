"""Per-property metadata used to generate MANIFEST.json (python -m mc.gen_manifest)."""

H = "explicit-state BFS over operation histories on the real object, reference model stepped alongside"
E = "bounded-exhaustive enumeration of the declared input space on the real code"
D = "deviation-bounded exploration of environment answers (CHESS-style iterative bounding)"

NOTE_COMMON = (
    "Trusted base: CPython, numpy/scipy/numba, gmsh/meshio where used, and the oracle "
    "written in the check module. Verdict covers only the stated alphabet and bound."
)

# id -> (level, technique, text)
REG = {
    "C01": ("exploration", E + "; oracle = independent numpy evaluator + complex-step derivative",
            "every expression tree up to the stated depth over the AD operator/function alphabet at lattice points"),
    "C02": ("exploration", E + "; oracle = direct forward-mode evaluation",
            "every operator tree up to the stated depth over operand kinds (incl. plain left operands), evaluated through EquationSystem"),
    "C03": ("exploration", E + "; oracle = high-order central differences of the residual, every Jacobian column",
            "all model configurations x states x every unit direction"),
    "C04": ("exploration", E + "; oracle = discrete conservation identities",
            "all closed-boundary flow/energy configurations x non-solution states"),
    "C05": ("model_checking", H, "all create/remove variable histories up to the depth bound; dict/list reference of the DOF layout"),
    "C06": ("exploration", E + "; oracle = slices of the full assembly",
            "every equation subset/order/grid restriction x variable subset on systems reached by variable histories"),
    "C07": ("model_checking", H + " (depth-2 histories of splits) + exhaustive split enumeration",
            "every admissible primary/secondary split, and every ordered pair of splits on one EquationSystem"),
    "C08": ("model_checking", H, "all set/shift/get histories up to the depth bound against a deque reference, with aliasing probes"),
    "C09": ("model_checking", H + "; " + D,
            "all reachable clock states of each configuration under every sequence of solver answers"),
    "C10": ("model_checking", D + " on the full NewtonSolver/run_time_dependent_model stack",
            "every placement of up to k scripted Newton failures/iteration counts"),
    "C11": ("exploration", E + "; oracle = closed-form linear fields", "grids x tensors x all Dirichlet/Neumann assignments x basis of linear fields"),
    "C12": ("exploration", E + "; oracle = structural identities + MPFA on K-orthogonal grids", "grids x tensors x boundary assignments"),
    "C13": ("exploration", E + "; oracle = closed-form affine displacement fields", "grids x Lame pairs x boundary assignments x basis of affine fields"),
    "C14": ("exploration", E + "; oracle = one-piece discretization", "every subproblem count, every partial update target"),
    "C15": ("exploration", E + "; oracle = closed-form divergence / normal vectors", "grids x alpha x affine displacement basis"),
    "C16": ("exploration", E + "; oracle = zero stress / translation solution", "grids x Lame pairs x translations x boundary mixes"),
    "C17": ("exploration", E + "; oracle = upwind matrix from the definition", "every sign vector of face fluxes x boundary assignments"),
    "C18": ("exploration", E + "; oracle = closed-form linear pressure", "simplex grids (embedded too) x tensors x linear basis, RT0 and MVEM"),
    "C19": ("exploration", E + "; oracle = divergence-theorem identities", "grid families x lattice perturbations of interior nodes"),
    "C20": ("exploration", E + "; oracle = transformed reference geometry", "grids x finite set of rigid motions"),
    "C21": ("exploration", E + "; oracle = dense recomputation from cell_faces", "grids incl. split and extracted grids"),
    "C22": ("exploration", E + "; oracle = parent geometry through returned maps", "every cell subset of small grids, every part count"),
    "C23": ("exploration", E + "; oracle = measure and containment", "refinement ratios, node counts, extrusion layer vectors"),
    "C24": ("model_checking", H, "all add/remove/replace histories of the md-grid container up to the depth bound against a dict/list reference"),
    "C25": ("exploration", E + "; oracle = geometric conformity identities", "all lattice fracture networks up to the stated size"),
    "C26": ("model_checking", H, "all sequences of mortar/secondary/primary replacements up to depth bound; conservation identities in every state"),
    "C27": ("exploration", E + "; oracle = index-valued vectors", "every ordered sub-list of grids up to length 3"),
    "C28": ("exploration", E + "; oracle = exact rational intersection", "all ordered segment pairs on an integer lattice"),
    "C29": ("exploration", E + "; oracle = exact rational arrangement", "all segment sets of size 2-3 on a lattice"),
    "C30": ("exploration", E + "; oracle = exact rational distance", "all point/segment/polygon pairs on a lattice"),
    "C31": ("exploration", E + "; oracle = exact orientation/winding", "lattice polygons/polyhedra x half-integer queries; all permutations of chains"),
    "C32": ("exploration", E + "; oracle = orthogonality identities", "all integer directions in {-2..2}^3"),
    "C33": ("exploration", E + "; oracle = measure partition", "all pairs of lattice tessellations"),
    "C34": ("exploration", E + "; oracle = brute force clustering", "all point sequences from well-separated clusters"),
    "C35": ("exploration", E + "; oracle = dense numpy", "every sparsity pattern of small matrices x every index argument"),
    "C36": ("model_checking", H + " over reused slicer objects + exhaustive index maps", "all injections of small index sets, all operand kinds, object reuse across expressions"),
    "C37": ("exploration", E + "; oracle = np.linalg.inv", "all block compositions x patterns x permutations"),
    "C38": ("exploration", E + "; oracle = written values", "every sequence of <=3 subdomain cell-type letters"),
    "C39": ("model_checking", H + " for set_bc sequences + exhaustive constructor arguments", "every face subset x condition assignment; set_bc histories"),
    "C40": ("exploration", E + "; oracle = symmetry/eigenvalues/memory independence", "lattice of tensor components x rotations x cell subsets"),
    "C41": ("exploration", E + "; oracle = exact multilinear function", "all multilinear monomials x lattice incl. box boundary"),
    "C42": ("exploration", E + "; oracle = defining identities + complex step", "all simplex lattice fractions x densities"),
    "C43": ("exploration", E + "; oracle = algebraic identities of conversion", "unit strings x scalings; model runs"),
    "C44": ("exploration", E + "; oracle = exact rational clipping", "lattice segments/polygons against polygons/polyhedra"),
    "C45": ("exploration", E + "; oracle = structural equality of trees", "all trees up to depth 2 and all single-datum mutations"),
    "C46": ("model_checking", H, "all add histories up to the depth bound against a Python dict"),
    "C47": ("exploration", E + "; oracle = written objects", "all small lattice networks and array shapes"),
}
