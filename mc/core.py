"""Common machinery for the bounded-exhaustive / explicit-state checks.

A check module (``mc/checks/cXX.py``) provides

    PROPERTY : str                     e.g. "C46"
    LEVEL    : "model_checking" | "exploration"
    RULE     : str                     how cases are enumerated / what is non-trivial
    ASSUMPTIONS : list[str]
    cases(tier) -> list                JSON-able case descriptors, deterministic order,
                                       the complete declared space for that tier
    run_case(case) -> Outcome          executes the real code, never raises for a
                                       property violation (returns it instead)
    known_finding(case, viol) -> str | None   optional, key into known_findings.json

The runner shards the case list over worker processes, verifies that every index was
evaluated exactly once, merges the outcomes, writes the evidence file and the replay
artefacts and prints VIOLATION / KNOWN-FINDING lines.
"""

from __future__ import annotations

import hashlib
import importlib
import json
import multiprocessing as mp
import os
import random
import shutil
import sys
import tempfile
import time
import traceback
from collections import Counter
from dataclasses import dataclass, field
from typing import Any, Callable, Hashable, Iterable

HOME = os.environ.get("VERIF_HOME", os.path.dirname(os.path.dirname(os.path.abspath(__file__))))


# --------------------------------------------------------------------------- outcomes


@dataclass
class Outcome:
    """What one case (one input, one program, or one whole state-space search) did."""

    evals: int = 0
    nontrivial: set = field(default_factory=set)  # distinct non-trivial keys
    classes: Counter = field(default_factory=Counter)  # observation classes
    states: int = 0
    transitions: int = 0
    max_depth: int = 0
    violations: list = field(default_factory=list)  # list of JSON-able dicts
    samples: list = field(default_factory=list)
    caps: list = field(default_factory=list)  # reasons the declared space was cut
    errors: list = field(default_factory=list)  # harness errors (never a verdict)
    extra: dict = field(default_factory=dict)  # numeric counters, summed on merge

    def ev(self, cls: str = "ok", key: Hashable | None = None, n: int = 1):
        """Record one evaluation with observation class ``cls``; ``key`` marks it as a
        distinct non-trivial case."""
        self.evals += n
        self.classes[cls] += n
        if key is not None:
            self.nontrivial.add(short(key))

    def violate(self, what: str, **detail):
        v = {"what": what}
        v.update({k: jsonable(x) for k, x in detail.items()})
        self.violations.append(v)

    def merge(self, other: "Outcome"):
        self.evals += other.evals
        self.nontrivial |= other.nontrivial
        self.classes.update(other.classes)
        self.states += other.states
        self.transitions += other.transitions
        self.max_depth = max(self.max_depth, other.max_depth)
        self.violations.extend(other.violations)
        if len(self.samples) < 6:
            self.samples.extend(other.samples[: 6 - len(self.samples)])
        self.caps.extend(other.caps)
        if len(self.errors) < 5:
            self.errors.extend(other.errors[: 5 - len(self.errors)])
        for k, v in other.extra.items():
            self.extra[k] = self.extra.get(k, 0) + v


def short(key) -> str:
    s = key if isinstance(key, str) else repr(key)
    if len(s) <= 24:
        return s
    return hashlib.blake2b(s.encode(), digest_size=8).hexdigest()


def jsonable(x):
    try:
        import numpy as np
    except Exception:  # pragma: no cover
        np = None
    if isinstance(x, (str, int, float, bool)) or x is None:
        return x
    if np is not None:
        if isinstance(x, np.ndarray):
            return jsonable(x.tolist())
        if isinstance(x, (np.integer,)):
            return int(x)
        if isinstance(x, (np.floating,)):
            return float(x)
        if isinstance(x, (np.bool_,)):
            return bool(x)
    if isinstance(x, complex):
        return [x.real, x.imag]
    if isinstance(x, dict):
        return {str(k): jsonable(v) for k, v in x.items()}
    if isinstance(x, (list, tuple, set, frozenset)):
        return [jsonable(v) for v in x]
    try:
        from fractions import Fraction

        if isinstance(x, Fraction):
            return float(x)
    except Exception:
        pass
    return repr(x)


# --------------------------------------------------------------------------- engine H


class AbstractionUnsound(Exception):
    """Two histories merged by the canonical abstraction showed different observations."""


def bfs(
    *,
    build: Callable[[tuple], Any],
    enabled: Callable[[Any, tuple], Iterable],
    canon: Callable[[Any], Hashable],
    check: Callable[[Any, tuple, Outcome], None],
    observe: Callable[[Any], Hashable] | None,
    max_depth: int,
    out: Outcome,
    max_states: int | None = None,
    label: str = "",
):
    """Explicit-state breadth-first search over operation histories.

    A state is identified with a history (tuple of operations). ``build(hist)`` replays
    the history on a fresh real object and steps the reference model alongside; it
    returns whatever ``check``/``canon``/``observe`` need (typically a pair
    (implementation object, reference model)). ``build`` may return an ``Abort`` to
    signal that the last operation is not admissible (rejected by model and
    implementation alike); such transitions are counted but not expanded.

    ``canon(state)`` is the abstraction used for de-duplication. When two histories
    reach the same abstract state, ``observe`` of both must coincide (differential
    check); otherwise the abstraction is unsound and the run is declared broken.
    """
    root = ()
    s0 = build(root)
    nv0 = len(out.violations)
    check(s0, root, out)
    out.states += 1
    if len(out.violations) > nv0:
        return {}
    seen = {canon(s0): (root, observe(s0) if observe else None)}
    frontier = [root]
    depth = 0
    capped = False
    while frontier and depth < max_depth:
        depth += 1
        nxt_frontier = []
        for hist in frontier:
            st = build(hist) if hist else s0
            for op in enabled(st, hist):
                h2 = hist + (op,)
                s2 = build(h2)
                out.transitions += 1
                if isinstance(s2, Abort):
                    out.ev("rejected:" + s2.why)
                    continue
                nviol = len(out.violations)
                check(s2, h2, out)
                if len(out.violations) > nviol:
                    # do not expand past a violating state: keeps counterexamples minimal
                    continue
                k = canon(s2)
                if k in seen:
                    if observe is not None:
                        o2 = observe(s2)
                        if o2 != seen[k][1]:
                            raise AbstractionUnsound(
                                f"{label}: histories {seen[k][0]!r} and {h2!r} share "
                                f"abstract state {k!r} but observations differ: "
                                f"{seen[k][1]!r} vs {o2!r}"
                            )
                        out.extra["merge_checks"] = out.extra.get("merge_checks", 0) + 1
                    continue
                seen[k] = (h2, observe(s2) if observe else None)
                out.states += 1
                nxt_frontier.append(h2)
                if max_states is not None and out.states >= max_states:
                    capped = True
                    break
            if capped:
                break
        if capped:
            out.caps.append(f"{label}: max_states={max_states} hit at depth {depth}")
            break
        frontier = nxt_frontier
        out.max_depth = max(out.max_depth, depth)
    return seen


class Abort:
    def __init__(self, why: str = "inadmissible"):
        self.why = why


# --------------------------------------------------------------------------- runner


def _worker_init(scratch_root: str):
    d = tempfile.mkdtemp(prefix="w_", dir=scratch_root)
    os.chdir(d)
    import warnings

    warnings.filterwarnings("ignore")


def _worker(args):
    modname, idx_cases = args
    mod = importlib.import_module(modname)
    res = []
    for idx, case in idx_cases:
        t0 = time.time()
        try:
            o = mod.run_case(case)
            if not isinstance(o, Outcome):
                raise TypeError("run_case must return Outcome")
        except AbstractionUnsound:
            raise
        except Exception as e:  # harness error: never a property verdict
            o = Outcome()
            o.extra["harness_errors"] = 1
            o.errors.append({"harness_error": repr(e), "trace": traceback.format_exc()[-1500:], "case": jsonable(case)})
        for v in o.violations:
            v.setdefault("case", jsonable(case))
        o.extra["_t"] = time.time() - t0
        res.append((idx, o))
    return res


def load_known_findings() -> dict:
    p = os.path.join(HOME, "known_findings.json")
    if not os.path.exists(p):
        return {}
    with open(p) as f:
        d = json.load(f)
    return {e["key"]: e for e in d.get("findings", []) if e.get("status") == "known"}


def run_check(modname: str, tier: str, seed: int, replay: str | None = None, jobs: int | None = None) -> int:
    t_start = time.time()
    mod = importlib.import_module(modname)
    pid = mod.PROPERTY
    scratch_base = os.environ.get("VERIF_SCRATCH", "/var/tmp")
    os.makedirs(scratch_base, exist_ok=True)
    scratch_root = tempfile.mkdtemp(prefix=f"verif_{pid}_", dir=scratch_base)
    try:
        if replay:
            return _replay(mod, replay, scratch_root)
        return _run(mod, modname, tier, seed, scratch_root, jobs, t_start)
    finally:
        shutil.rmtree(scratch_root, ignore_errors=True)


def _replay(mod, path, scratch_root) -> int:
    os.chdir(scratch_root)
    with open(path) as f:
        rep = json.load(f)
    case = rep["case"]
    obs = []
    for _ in range(2):
        o = mod.run_case(case)
        obs.append(json.dumps([jsonable(v) for v in o.violations], sort_keys=True))
    if obs[0] != obs[1]:
        print(f"BROKEN property={mod.PROPERTY} replay of {path} is not deterministic")
        return 2
    o = mod.run_case(case)
    if o.violations:
        for v in o.violations[:5]:
            print("  ", json.dumps(jsonable(v))[:600])
        print(f"VIOLATION property={mod.PROPERTY} replay={path}")
        return 1
    print(f"replay {path}: property holds on this case")
    return 0


def _run(mod, modname, tier, seed, scratch_root, jobs, t_start) -> int:
    pid = mod.PROPERTY
    cases = list(mod.cases(tier))
    n = len(cases)
    order = list(range(n))
    random.Random(seed).shuffle(order)  # the seed only permutes evaluation order
    jobs = jobs or int(os.environ.get("VERIF_JOBS", "16"))
    jobs = max(1, min(jobs, n))
    deadline = float(os.environ.get("VERIF_DEADLINE_S", "900" if tier == "quick" else "14400"))
    chunk = max(1, min(getattr(mod, "CHUNK", 64), (n + jobs * 4 - 1) // (jobs * 4)))
    tasks = [
        (modname, [(i, cases[i]) for i in order[k : k + chunk]]) for k in range(0, n, chunk)
    ]
    total = Outcome()
    done = [0] * n
    skipped = 0
    import concurrent.futures as cf

    broken_pool = None
    if jobs == 1:
        _worker_init(scratch_root)
        results_iter = (_worker(t) for t in tasks)
        pool = None
    else:
        ctx = mp.get_context("spawn")
        # ProcessPoolExecutor (unlike multiprocessing.Pool) notices a worker that dies in
        # native code (segfault, abort) and raises BrokenProcessPool instead of hanging.
        pool = cf.ProcessPoolExecutor(jobs, mp_context=ctx, initializer=_worker_init, initargs=(scratch_root,))
        futs = [pool.submit(_worker, t) for t in tasks]
        results_iter = (f.result() for f in cf.as_completed(futs))
    slowest = 0.0
    try:
        for res in results_iter:
            for idx, o in res:
                done[idx] += 1
                slowest = max(slowest, o.extra.pop("_t", 0.0))
                total.merge(o)
            if time.time() - t_start > deadline:
                skipped = n - sum(done)
                total.caps.append(f"deadline {deadline}s hit: {skipped} of {n} cases not evaluated")
                break
    except cf.process.BrokenProcessPool as e:
        skipped = n - sum(done)
        broken_pool = f"a worker process died ({e!r}); {skipped} of {n} cases not evaluated"
        total.caps.append(broken_pool)
    finally:
        if pool is not None:
            pool.shutdown(wait=False, cancel_futures=True)
            for pr in list((getattr(pool, "_processes", None) or {}).values()):
                try:
                    pr.terminate()
                except Exception:
                    pass
    if not skipped and any(d != 1 for d in done):
        print(f"BROKEN property={pid}: case accounting failed (some index not evaluated exactly once)")
        return 2

    harness_errors = total.extra.get("harness_errors", 0)

    # classify violations
    known = load_known_findings()
    kf = getattr(mod, "known_finding", None)
    real, known_hits = [], {}
    for v in total.violations:
        key = None
        if kf is not None:
            try:
                key = kf(v.get("case"), v)
            except Exception:
                key = None
        if key is not None and key in known:
            known_hits.setdefault(key, []).append(v)
        else:
            real.append(v)

    # replay artefacts
    rdir = os.path.join(HOME, "replays", pid)
    replay_paths = []
    if real:
        os.makedirs(rdir, exist_ok=True)
        seen_files = set()
        for v in sorted(real, key=lambda v: len(json.dumps(v, sort_keys=True)))[:20]:
            blob = json.dumps({"property": pid, "case": v.get("case"), "violation": v}, sort_keys=True, indent=1)
            h = hashlib.blake2b(json.dumps(v.get("case"), sort_keys=True).encode(), digest_size=6).hexdigest()
            p = os.path.join(rdir, f"{h}.json")
            if p in seen_files:
                continue
            seen_files.add(p)
            with open(p, "w") as f:
                f.write(blob)
            replay_paths.append((p, v))

    # self-test against vacuity
    vacuous = []
    min_classes = getattr(mod, "MIN_CLASSES", 2)
    if len(total.classes) < min_classes and not real:
        vacuous.append(f"only {len(total.classes)} observation class(es): {dict(total.classes)}")
    if len(total.nontrivial) < 2:
        vacuous.append(f"distinct_nontrivial={len(total.nontrivial)}")

    exhaustive = (not skipped) and not total.caps and harness_errors == 0
    wall = time.time() - t_start
    level = mod.LEVEL
    cov: dict[str, Any] = {
        "evaluations": int(total.evals),
        "distinct_nontrivial": int(len(total.nontrivial)),
        "rule": mod.RULE,
        "samples": total.samples[:6] if total.samples else [jsonable(c) for c in cases[:2]],
        "exhaustive": bool(exhaustive),
        "cases_declared": n,
        "cases_evaluated": int(sum(done)),
        "observation_classes": {k: int(v) for k, v in sorted(total.classes.items(), key=lambda kv: -kv[1])[:40]},
        "distinct_observation_classes": len(total.classes),
        "caps": total.caps[:10],
        "bounds": getattr(mod, "BOUNDS", {}).get(tier, ""),
        "slowest_case_s": round(slowest, 3),
        "known_findings_hit": sorted(known_hits),
        "harness_errors": int(harness_errors),
    }
    if level == "model_checking" and total.states >= 1 and total.transitions >= 1:
        cov["states"] = int(total.states)
        cov["transitions"] = int(total.transitions)
        # every transition is executed on the implementation (no separate model artefact)
        cov["traces_validated_against_impl"] = int(total.transitions)
        cov["max_depth"] = int(total.max_depth)
    for k, v in total.extra.items():
        if k not in ("harness_errors",):
            cov[k] = v if isinstance(v, (int, float)) else jsonable(v)
    ev = {
        "property_id": pid,
        "tier": tier,
        "seed": int(seed),
        "level": level,
        "coverage": cov,
        "assumptions": list(getattr(mod, "ASSUMPTIONS", [])),
        "wall_s": round(wall, 2),
        "violations": len(real),
    }
    os.makedirs(os.path.join(HOME, "evidence"), exist_ok=True)
    evpath = os.path.join(HOME, "evidence", f"{pid}.json")
    with open(evpath, "w") as f:
        json.dump(ev, f, indent=1, sort_keys=True)
        f.write("\n")
    evidence_problem = None
    try:
        _validate_evidence(ev)
    except Exception as e:  # keep going: a violation must still be reported
        evidence_problem = str(e)[-600:]

    print(
        f"[{pid}] tier={tier} seed={seed} cases={n} evals={total.evals} nontrivial={len(total.nontrivial)} "
        f"states={total.states} transitions={total.transitions} classes={len(total.classes)} "
        f"exhaustive={exhaustive} wall={wall:.1f}s"
    )
    for key, vs in sorted(known_hits.items()):
        print(f"KNOWN-FINDING: property={pid} {key}: {known[key].get('what', '')} ({len(vs)} case(s))")
    rc = 0
    if evidence_problem:
        print(f"BROKEN property={pid}: {evidence_problem}")
        rc = 2
    if broken_pool:
        print(f"BROKEN property={pid}: {broken_pool}")
        rc = 2
    if harness_errors:
        print(f"BROKEN property={pid}: {harness_errors} harness error(s); first: {json.dumps(total.errors[:1])[:2500]}")
        rc = 2
    if vacuous and not real:
        print(f"BROKEN property={pid}: vacuous exploration: {vacuous}")
        rc = 2
    for p, v in replay_paths:
        print("  ", json.dumps(jsonable(v))[:400])
        print(f"VIOLATION property={pid} replay={p}")
        rc = 1
    if real and not replay_paths:
        print(f"VIOLATION property={pid} replay=none")
        rc = 1
    return rc


def _validate_evidence(ev):
    """Schema-validate the evidence with the tooling venv's jsonschema (not in /venv)."""
    import shutil as _sh
    import subprocess

    sp = os.path.join(HOME, "mc", "EVIDENCE.schema.json")
    py = _sh.which("python3-vt") or "/opt/veriftools/pyvenv/bin/python"
    if not (os.path.exists(sp) and os.path.exists(py)):
        return
    code = (
        "import json,sys,jsonschema;"
        "jsonschema.validate(json.load(sys.stdin), json.load(open(sys.argv[1])))"
    )
    env = {k: v for k, v in os.environ.items() if k not in ("PYTHONPATH", "PYTHONHOME")}
    r = subprocess.run([py, "-c", code, sp], input=json.dumps(ev), text=True, capture_output=True, env=env)
    if r.returncode != 0:
        raise RuntimeError("evidence does not validate: " + r.stderr[-800:])
