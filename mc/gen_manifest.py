"""Regenerate /verif/MANIFEST.json from mc/registry.py and the check modules present."""
import json
import os
import subprocess
import sys

from mc.registry import NOTE_COMMON, REG

HOME = os.path.dirname(os.path.dirname(os.path.abspath(__file__)))


def main():
    checks, na = [], []
    ids = [json.loads(l)["id"] for l in open(os.path.join(HOME, "properties.jsonl"))]
    na_reasons = {}
    p = os.path.join(HOME, "mc", "not_applicable.json")
    if os.path.exists(p):
        na_reasons = json.load(open(p))
    ready = set(open(os.path.join(HOME, "mc", "ready.txt")).read().split())
    for pid in ids:
        level, tech, text = REG[pid]
        mod = os.path.join(HOME, "mc", "checks", pid.lower() + ".py")
        if pid in na_reasons or not os.path.exists(mod) or pid not in ready:
            na.append({"property_id": pid, "reason": na_reasons.get(pid, "check still under construction / not yet validated on the unchanged tree (plan: DESIGN.md section 4)")})
            continue
        checks.append({
            "property_id": pid,
            "quick_cmd": f"./check {pid} --tier quick",
            "thorough_cmd": f"./check {pid} --tier thorough",
            "evidence_file": f"/verif/evidence/{pid}.json",
            "replay_cmd_template": f"./check {pid} --replay {{path}}",
            "engine": "mc",
            "level_claimed": {"category": level, "text": text + " — exhaustive within the bound written to the evidence file", "design_ref": f"DESIGN.md section 4, {pid}"},
            "level_note": NOTE_COMMON,
            "technique": tech,
        })
    fixes = subprocess.run(["git", "-C", "/repo", "log", "--format=%h %s", "--grep=^fix:"], capture_output=True, text=True).stdout.strip().splitlines()
    man = {
        "version": 1,
        "setup_cmd": "./setup.sh",
        "hooks": {
            "guard": "PMGBERGEN_POREPY_VERIF",
            "enable": "no source hooks exist; ./check exports PMGBERGEN_POREPY_VERIF=1 for uniformity and imports porepy from /repo/src",
            "baseline_off_cmd": "cd /repo && /venv/bin/python -m pytest -ra -q -p no:cacheprovider --timeout=900 --continue-on-collection-errors",
            "source_commits": [],
            "add_only": True,
        },
        "engines": [{
            "name": "mc",
            "path": "/verif/mc",
            "serves_properties": [c["property_id"] for c in checks],
            "kind_free_text": "hand-written explicit-state (history BFS), deviation-bounded and bounded-exhaustive explorers running the real Python implementation in 16 worker processes",
        }],
        "checks": checks,
        "notes": "Genuine defects repaired in /repo by 'fix:' commits: " + "; ".join(fixes) if fixes else "",
        "not_applicable": na,
    }
    with open(os.path.join(HOME, "MANIFEST.json"), "w") as f:
        json.dump(man, f, indent=1)
        f.write("\n")
    print(f"MANIFEST.json: {len(checks)} checks, {len(na)} not_applicable")


if __name__ == "__main__":
    main()
