#!/bin/bash
# Offline setup: nothing is downloaded or compiled ahead of time except numba's JIT cache
# (stored next to the porepy sources), which is warmed so that the first check does not pay for it.
set -e
cd "$(dirname "${BASH_SOURCE[0]}")"
mkdir -p evidence replays
export PYTHONPATH="/repo/src:$PWD"
cd /var/tmp
/venv/bin/python - <<'PY'
import warnings; warnings.filterwarnings("ignore")
import numpy as np, porepy as pp
g = pp.CartGrid([2, 2]); g.compute_geometry()
k = pp.SecondOrderTensor(np.ones(g.num_cells))
bc = pp.BoundaryCondition(g, g.get_all_boundary_faces(), "dir")
d = pp.initialize_data({}, "flow", {"second_order_tensor": k, "bc": bc})
pp.Mpfa("flow").discretize(g, d)
print("setup ok: porepy", pp.__version__ if hasattr(pp, "__version__") else "", "from", pp.__file__)
PY
